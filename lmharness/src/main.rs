//! Loom engine: runs the *real* multi-threaded code paths of yamaquasi
//! (built with --cfg yamaquasi_verif_loom, see /repo/src/verif_shim.rs) under
//! loom's exhaustive scheduler (DPOR, preemption bound) and checks an oracle
//! on every execution.
//!
//!   ymq-verif-loom C04|C05 [--tier quick|thorough]      master (spawns one child per scenario x bound)
//!   ymq-verif-loom run <scenario> <pb> [--cap secs]      child
//!   ymq-verif-loom C04 --replay <file>                   re-execute a recorded failing schedule

#[path = "../../harness/src/common.rs"]
#[allow(dead_code)]
mod common;

use common::*;
use std::collections::BTreeMap;
use std::io::Write;
use std::path::PathBuf;
use std::process::{Command, Stdio};
use std::str::FromStr;
use std::sync::atomic::{AtomicU64, AtomicUsize, Ordering};
use std::sync::{Arc, Mutex};
use std::time::{Duration, Instant};

use yamaquasi::{Algo, Preferences, Uint, Verbosity};

#[derive(Clone, Debug)]
struct Scenario {
    name: &'static str,
    prop: &'static str,
    n: &'static str,
    algo: Algo,
    threads: usize,
    fb_size: Option<u32>,
    large_factor: Option<u64>,
    use_double: Option<bool>,
    order: usize,
    horizon: usize,
    /// C05: an extra thread flips the abort flag at an arbitrary point
    flip: bool,
    why: &'static str,
}

const fn sc(name: &'static str, prop: &'static str, n: &'static str, algo: Algo, threads: usize, why: &'static str) -> Scenario {
    Scenario {
        name,
        prop,
        n,
        algo,
        threads,
        fb_size: None,
        large_factor: None,
        use_double: None,
        order: 0,
        horizon: 0,
        flip: false,
        why,
    }
}

// inputs: 1000036000099 = 1000003 * 1000033 (40 bits);
// 316912650293419769627257278767: 98-bit semiprime that completes below the factor-base size with fb_size=832
const N40: &str = "1000036000099";
const N98: &str = "316912650293419769627257278767";

fn scenarios() -> Vec<Scenario> {
    let mut v = vec![];
    v.push(sc("S1-siqs-2w", "C04", N40, Algo::Siqs, 2, "two workers contend on the first target check"));
    v.push(Scenario {
        fb_size: Some(832),
        ..sc("S2-siqs-gap", "C04", N98, Algo::Siqs, 2, "sequential run ends with gap==0 and fewer relations than the factor base: exposes a stale store of a non-zero gap")
    });
    v.push(Scenario {
        large_factor: Some(30),
        use_double: Some(true),
        ..sc("S3-siqs-dlp", "C04", N40, Algo::Siqs, 2, "single and double large primes: combine_* and walk_doubles in arrival orders no sequential run produces")
    });
    v.push(Scenario {
        horizon: 8,
        ..sc("S4-mpqs-2w", "C04", N40, Algo::Mpqs, 2, "finished() reads len, reads gap, stores target/done in separate steps")
    });
    v.push(sc("S5-qs-join", "C04", N40, Algo::Qs, 2, "rayon::join(forward, backward) inserting into one store; nested read lock after the join"));
    v.push(sc("S6-ecm-3w", "C04", "1000036000099", Algo::Ecm, 3, "ECM curve fan-out: done/iters flags, first Some in seed order wins"));
    v.push(sc("S6b-ecm-3f", "C04", "1000073001431003663", Algo::Ecm, 2, "three prime factors: recursion re-enters the parallel ECM"));
    v.push(sc("S7-siqs-3w", "C04", N40, Algo::Siqs, 3, "third participant: two observers + one writer patterns"));
    v.push(Scenario {
        horizon: 8,
        ..sc("S7b-mpqs-3w", "C04", N40, Algo::Mpqs, 3, "third participant on MPQS")
    });
    v.push(Scenario {
        order: 1,
        ..sc("S7c-siqs-rev", "C04", N40, Algo::Siqs, 2, "items claimed in reverse order (out-of-order steals)")
    });
    v.push(Scenario {
        order: 3,
        ..sc("S7d-siqs-rot", "C04", N40, Algo::Siqs, 2, "items claimed in rotated order")
    });
    // sparse determinant with a pool: n names a fixed matrix; result = (|det|, sign marker)
    v.push(sc("S9-detz-8", "C19", "detz:8", Algo::Auto, 2, "SparseMat::detz with a pool: two chunks of four moduli reconstructed in both arrival orders; done flag vs late writers"));
    v.push(sc("S9b-detz-12", "C19", "detz:12", Algo::Auto, 2, "three chunks, two workers: the CRT is accepted when two successive reconstructions agree, in every arrival order"));
    // class group: n holds the discriminant (negative); the result is (h, cyclic factors)
    v.push(sc("S8-cls-2w", "C04 C18", "-17179869263", Algo::Auto, 2, "classgroup(D, pool of 2): workers take different A values, share the relation set and the done flag"));
    v.push(Scenario {
        use_double: Some(true),
        ..sc("S8b-cls-dlp", "C04 C18", "-17179869263", Algo::Auto, 2, "classgroup with forced double large primes: spanning tree of large primes updated in arrival orders no sequential run produces")
    });
    v.push(Scenario {
        order: 1,
        ..sc("S8c-cls-rev", "C04 C18", "-1099511627803", Algo::Auto, 2, "classgroup, D = 5 mod 8, items claimed in reverse order")
    });
    v.push(sc("S10-auto-2w", "C04", "618970019643974367030804893", Algo::Auto, 2, "automatic mode with a pool (trial division, then ecm/siqs with threads)"));
    // C05 (b): abort flag flipped by another thread at every possible point
    v.push(Scenario {
        flip: true,
        ..sc("A1-siqs-flip", "C05", N40, Algo::Siqs, 2, "abort flips while two SIQS workers sieve")
    });
    v.push(Scenario {
        flip: true,
        horizon: 8,
        ..sc("A4-mpqs-flip", "C05", N40, Algo::Mpqs, 2, "abort flips while two MPQS workers sieve")
    });
    v.push(Scenario {
        flip: true,
        ..sc("A6-ecm-flip", "C05", N40, Algo::Ecm, 2, "abort flips while ECM curves run")
    });
    v.push(Scenario {
        flip: true,
        ..sc("A5-qs-flip", "C05", N40, Algo::Qs, 2, "abort flips during classical QS join")
    });
    v.push(Scenario {
        flip: true,
        fb_size: Some(832),
        ..sc("A2-siqs-gap-flip", "C05", N98, Algo::Siqs, 2, "abort flips on the input that finishes below the factor-base size")
    });
    v
}

// ------------------------------------------------------------------ child

static EXECS: AtomicU64 = AtomicU64::new(0);
static OUTCOMES: Mutex<BTreeMap<String, u64>> = Mutex::new(BTreeMap::new());
static RELS_PUBLISHED: AtomicUsize = AtomicUsize::new(0);
static MAX_POLLS_AFTER: AtomicU64 = AtomicU64::new(0);
static MAX_RELS_AFTER: AtomicU64 = AtomicU64::new(0);
/// value of RELS_PUBLISHED when the abort predicate first answered true in this execution (u64::MAX = never)
static RELS_AT_FIRST_TRUE: AtomicU64 = AtomicU64::new(u64::MAX);
static REF_RELS: AtomicU64 = AtomicU64::new(0);

#[derive(Clone, Debug, PartialEq)]
enum Res {
    Ok(Vec<Uint>),
    Err,
}

fn res_str(r: &Res) -> String {
    match r {
        Res::Ok(v) => v.iter().map(|x| x.to_string()).collect::<Vec<_>>().join("*"),
        Res::Err => "Err".into(),
    }
}

/// Canonical description of a class group result: h followed by the sorted prime powers of
/// the cyclic factors (the presentation may differ between runs, the group may not).
fn cls_result(g: &yamaquasi::relationcls::ClassGroup) -> Vec<Uint> {
    let mut v = vec![g.h];
    let mut pp: Vec<u128> = vec![];
    for &d in &g.invariants {
        let mut x = d;
        let mut p = 2u128;
        while p * p <= x {
            if x % p == 0 {
                let mut q = 1;
                while x % p == 0 {
                    x /= p;
                    q *= p;
                }
                pp.push(q);
            }
            p += 1;
        }
        if x > 1 {
            pp.push(x);
        }
    }
    pp.sort_unstable();
    v.extend(pp.into_iter().map(|x| Uint::from_str(&x.to_string()).unwrap()));
    v
}

const M8: [[i32; 8]; 8] = [
    [3, 13, 0, -26, -1, 1, 28, -11],
    [-3, 0, -1, 12, 2, -7, -1, 1],
    [-3, -4, -1, 14, 2, -4, -9, 3],
    [4, -8, 0, 0, 0, 10, -13, 4],
    [0, -9, -2, 12, 2, 3, -15, 5],
    [-5, -13, -1, 28, 2, -3, -28, 10],
    [3, -3, 1, 8, -2, 6, -5, 7],
    [-2, -13, 0, 25, 0, 1, -27, 12],
];
const M12: [[i32; 12]; 12] = [
    [8, 0, 11, -14, -2, -3, 7, 1, -10, 13, 11, 6],
    [11, 4, 15, -25, -1, -5, 5, -1, -31, 35, 30, 7],
    [1, -1, -2, 0, -1, -1, 1, 1, 1, -3, 2, 1],
    [6, 2, 7, -9, -2, -3, 3, 0, -10, 12, 11, 5],
    [0, 0, 0, 0, 1, 0, 0, 0, -2, 1, 2, -1],
    [5, 2, 9, -7, 0, -2, 5, -1, -6, 9, 6, 3],
    [12, 4, 19, -16, -1, -5, 8, -1, -19, 25, 18, 8],
    [-6, -1, -6, 9, 1, 3, -3, 0, 11, -12, -12, -4],
    [3, 4, 7, -5, -2, -1, 5, -2, 2, 4, -1, 4],
    [7, 1, 10, -9, 0, -3, 4, 0, -12, 14, 11, 4],
    [-6, -2, -5, 7, 3, 3, -6, 1, 1, -4, -5, -5],
    [5, 2, 8, -7, -1, -2, 5, -1, -4, 8, 4, 4],
];

fn run_scenario_once(s: &Scenario, threads: Option<usize>, flag: Option<Arc<loom::sync::atomic::AtomicBool>>, polls_after: Arc<AtomicU64>) -> Res {
    if let Some(which) = s.n.strip_prefix("detz:") {
        // determinants known by construction (sympy): 30 and 42
        let (rows, want): (Vec<Vec<(u32, i32)>>, i64) = if which == "8" {
            (M8.iter().map(|r| r.iter().enumerate().filter(|(_, &x)| x != 0).map(|(j, &x)| (j as u32, x)).collect()).collect(), 30)
        } else {
            (M12.iter().map(|r| r.iter().enumerate().filter(|(_, &x)| x != 0).map(|(j, &x)| (j as u32, x)).collect()).collect(), 42)
        };
        let pool = threads.map(|t| yamaquasi::verif_shim::ThreadPoolBuilder::new().num_threads(t).build().ok().unwrap());
        let m = yamaquasi::matrix::intsparse::SparseMat::new(rows);
        let d = m.detz(pool.as_ref());
        let ok = d.to_string() == want.to_string();
        // encode: the determinant's decimal digits as a Uint when right, otherwise Err-like marker
        return if ok { Res::Ok(vec![Uint::from_str(&want.to_string()).unwrap()]) } else { Res::Ok(vec![Uint::ZERO, Uint::from_str(&d.unsigned_abs().to_string()).unwrap_or(Uint::ZERO)]) };
    }
    if s.n.starts_with('-') {
        let d = yamaquasi::Int::from_str(s.n).unwrap();
        let mut prefs = Preferences::default();
        prefs.verbosity = Verbosity::Silent;
        prefs.threads = threads;
        prefs.use_double = s.use_double;
        let pool = threads.map(|t| yamaquasi::verif_shim::ThreadPoolBuilder::new().num_threads(t).build().ok().unwrap());
        return match yamaquasi::classgroup::classgroup(&d, &prefs, pool.as_ref()) {
            Some(g) => Res::Ok(cls_result(&g)),
            None => Res::Err,
        };
    }
    let n = Uint::from_str(s.n).unwrap();
    let mut prefs = Preferences::default();
    prefs.verbosity = Verbosity::Silent;
    prefs.threads = threads;
    prefs.fb_size = s.fb_size;
    prefs.large_factor = s.large_factor;
    prefs.use_double = s.use_double;
    if let Some(flag) = flag {
        let pa = polls_after.clone();
        prefs.should_abort = Some(Box::new(move || {
            let v = flag.load(loom::sync::atomic::Ordering::SeqCst);
            if v {
                pa.fetch_add(1, Ordering::SeqCst);
                let _ = RELS_AT_FIRST_TRUE.compare_exchange(u64::MAX, RELS_PUBLISHED.load(Ordering::SeqCst) as u64, Ordering::SeqCst, Ordering::SeqCst);
            }
            v
        }));
    }
    match yamaquasi::factor(n, s.algo, &prefs) {
        Ok(v) => Res::Ok(v),
        Err(_) => Res::Err,
    }
}

fn big_stack<T: Send + 'static>(f: impl FnOnce() -> T + Send + 'static) -> T {
    loom::thread::Builder::new()
        .stack_size(8 << 20)
        .spawn(f)
        .expect("spawn driver")
        .join()
        .expect("driver panicked")
}

fn child_main(args: &[String]) -> i32 {
    let name = &args[0];
    let pb: usize = args[1].parse().unwrap();
    let mut cap = 0u64;
    let mut i = 2;
    while i < args.len() {
        if args[i] == "--cap" {
            cap = args[i + 1].parse().unwrap();
            i += 1;
        }
        i += 1;
    }
    let Some(s) = scenarios().into_iter().find(|s| s.name == name) else {
        println!("MACHINERY unknown scenario {}", name);
        return 2;
    };
    yamaquasi::verif_shim::set_range_horizon(s.horizon);
    yamaquasi::verif_shim::set_item_order(s.order);
    let _ = yamaquasi::verif::RELATION_OBSERVER.set(Box::new(|_n, _r| {
        RELS_PUBLISHED.fetch_add(1, Ordering::SeqCst);
    }));
    std::panic::set_hook(Box::new(|info| {
        let loc = info
            .location()
            .map(|l| format!("{}:{}", l.file(), l.line()))
            .unwrap_or_default();
        let msg = if let Some(s) = info.payload().downcast_ref::<&str>() {
            s.to_string()
        } else if let Some(s) = info.payload().downcast_ref::<String>() {
            s.clone()
        } else {
            "<non-string>".into()
        };
        let msg: String = msg.replace('\n', " ").chars().take(300).collect();
        println!("PANIC exec={} at={} msg={}", EXECS.load(Ordering::SeqCst), loc, msg);
        let _ = std::io::stdout().flush();
    }));
    // 1. sequential reference inside a one-thread loom model
    let expected: Arc<Mutex<Option<Res>>> = Arc::new(Mutex::new(None));
    {
        let e = expected.clone();
        let s2 = s.clone();
        let mut b = loom::model::Builder::new();
        b.max_branches = 10_000_000;
        b.checkpoint_file = None;
        b.check(move || {
            let s3 = s2.clone();
            let r = big_stack(move || run_scenario_once(&s3, None, None, Arc::new(AtomicU64::new(0))));
            *e.lock().unwrap() = Some(r);
        });
    }
    let expected = expected.lock().unwrap().clone().unwrap();
    REF_RELS.store(RELS_PUBLISHED.load(Ordering::SeqCst) as u64, Ordering::SeqCst);
    println!("REFERENCE {} rels={}", res_str(&expected), REF_RELS.load(Ordering::SeqCst));
    let is_cls = s.n.starts_with('-') || s.n.starts_with("detz:");
    let n = if is_cls { Uint::ZERO } else { Uint::from_str(s.n).unwrap() };
    // 2. exhaustive exploration within the preemption bound
    let mut b = loom::model::Builder::new(); // honours LOOM_CHECKPOINT_FILE / _INTERVAL
    b.preemption_bound = Some(pb);
    b.max_branches = 10_000_000;
    if cap > 0 {
        b.max_duration = Some(Duration::from_secs(cap));
        if std::env::var("LOOM_CHECKPOINT_INTERVAL").is_err() {
            b.checkpoint_interval = 50;
        }
    }
    let t0 = Instant::now();
    let s2 = s.clone();
    let exp2 = expected.clone();
    b.check(move || {
        EXECS.fetch_add(1, Ordering::SeqCst);
        let before = RELS_PUBLISHED.load(Ordering::SeqCst);
        RELS_AT_FIRST_TRUE.store(u64::MAX, Ordering::SeqCst);
        let s3 = s2.clone();
        let polls_after = Arc::new(AtomicU64::new(0));
        let pa = polls_after.clone();
        let r = if s2.flip {
            let flag = Arc::new(loom::sync::atomic::AtomicBool::new(false));
            let f2 = flag.clone();
            let flipper = loom::thread::spawn(move || {
                f2.store(true, loom::sync::atomic::Ordering::SeqCst);
            });
            let r = big_stack(move || run_scenario_once(&s3, Some(s3.threads), Some(flag), pa));
            flipper.join().unwrap();
            r
        } else {
            big_stack(move || run_scenario_once(&s3, Some(s3.threads), None, pa))
        };
        let rels = RELS_PUBLISHED.load(Ordering::SeqCst) - before;
        let pafter = polls_after.load(Ordering::SeqCst);
        MAX_POLLS_AFTER.fetch_max(pafter, Ordering::SeqCst);
        // oracle
        let mut bad: Option<String> = None;
        match &r {
            Res::Ok(_) if is_cls => {}
            Res::Ok(v) => {
                let prod = v.iter().fold(Uint::ONE, |a, b| a * *b);
                if prod != n {
                    bad = Some(format!("product {} != n", prod));
                }
                if v.windows(2).any(|w| w[0] > w[1]) || v.iter().any(|x| x.bits() <= 1) {
                    bad = Some("unsorted or trivial element".into());
                }
            }
            Res::Err => {}
        }
        if !s2.flip {
            // complete whenever the single-threaded run is complete
            if r != exp2 {
                bad = Some(format!("result {} differs from the single-threaded result {}", res_str(&r), res_str(&exp2)));
            }
        } else {
            // promptness in work units. (1) polls answered `true` before the call returns:
            // every remaining work item polls once and returns, so the bound is the number
            // of items (< 64 in these scenarios) plus the polls of factor_impl itself.
            if pafter > 80 {
                bad = Some(format!("{} polls answered true before the call returned (bound 80)", pafter));
            }
            // Relations published after the first `true` answer are reported, not gated: a
            // worker legitimately finishes the whole polynomial family of its current A
            // (sieve_a polls only `done`), which on small inputs is a large share of a run.
            let at = RELS_AT_FIRST_TRUE.load(Ordering::SeqCst);
            if at != u64::MAX {
                let after = RELS_PUBLISHED.load(Ordering::SeqCst) as u64 - at;
                MAX_RELS_AFTER.fetch_max(after, Ordering::SeqCst);
            }
        }
        let key = if s2.flip {
            format!("{} polls_after={}", res_str(&r), pafter)
        } else {
            format!("{} rels={}", res_str(&r), rels)
        };
        *OUTCOMES.lock().unwrap().entry(key).or_default() += 1;
        if let Some(b) = bad {
            println!("ORACLE exec={} {}", EXECS.load(Ordering::SeqCst), b);
            let _ = std::io::stdout().flush();
            panic!("oracle: {}", b);
        }
    });
    let capped = cap > 0 && t0.elapsed().as_secs() >= cap;
    let oc = OUTCOMES.lock().unwrap();
    println!(
        "DONE execs={} capped={} secs={:.2} nested_reads={} horizon_cuts={} max_polls_after={} max_rels_after={} distinct_outcomes={}",
        EXECS.load(Ordering::SeqCst),
        capped,
        t0.elapsed().as_secs_f64(),
        yamaquasi::verif_shim::NESTED_READS.load(Ordering::SeqCst),
        yamaquasi::verif_shim::HORIZON_CUTS.load(Ordering::SeqCst),
        MAX_POLLS_AFTER.load(Ordering::SeqCst),
        MAX_RELS_AFTER.load(Ordering::SeqCst),
        oc.len()
    );
    for (k, v) in oc.iter().take(40) {
        println!("OUTCOME {} x{}", k, v);
    }
    0
}

// ------------------------------------------------------------------ master

struct ChildResult {
    scenario: String,
    pb: usize,
    execs: u64,
    capped: bool,
    secs: f64,
    outcomes: Vec<String>,
    distinct: u64,
    nested_reads: u64,
    max_polls_after: u64,
    max_rels_after: u64,
    failure: Option<String>,
    reference: String,
    machinery: Option<String>,
}

fn run_child(exe: &PathBuf, name: &str, pb: usize, cap: u64, ckpt: Option<&PathBuf>) -> ChildResult {
    let mut cmd = Command::new(exe);
    cmd.arg("run").arg(name).arg(pb.to_string()).arg("--cap").arg(cap.to_string());
    cmd.env_remove("LOOM_CHECKPOINT_FILE");
    cmd.env_remove("LOOM_CHECKPOINT_INTERVAL");
    if let Some(p) = ckpt {
        cmd.env("LOOM_CHECKPOINT_FILE", p);
        cmd.env("LOOM_CHECKPOINT_INTERVAL", "1");
    }
    let out = cmd.stdout(Stdio::piped()).stderr(Stdio::null()).output().expect("spawn child");
    let text = String::from_utf8_lossy(&out.stdout).to_string();
    let mut r = ChildResult {
        scenario: name.to_string(),
        pb,
        execs: 0,
        capped: false,
        secs: 0.0,
        outcomes: vec![],
        distinct: 0,
        nested_reads: 0,
        max_polls_after: 0,
        max_rels_after: 0,
        failure: None,
        reference: String::new(),
        machinery: None,
    };
    let mut done = false;
    let mut done_ref = false;
    for l in text.lines() {
        if let Some(x) = l.strip_prefix("REFERENCE ") {
            r.reference = x.to_string();
            done_ref = true;
        } else if let Some(x) = l.strip_prefix("DONE ") {
            done = true;
            for tok in x.split_whitespace() {
                let mut kv = tok.splitn(2, '=');
                let (k, v) = (kv.next().unwrap(), kv.next().unwrap_or(""));
                match k {
                    "execs" => r.execs = v.parse().unwrap_or(0),
                    "capped" => r.capped = v == "true",
                    "secs" => r.secs = v.parse().unwrap_or(0.0),
                    "nested_reads" => r.nested_reads = v.parse().unwrap_or(0),
                    "max_polls_after" => r.max_polls_after = v.parse().unwrap_or(0),
                    "max_rels_after" => r.max_rels_after = v.parse().unwrap_or(0),
                    "distinct_outcomes" => r.distinct = v.parse().unwrap_or(0),
                    _ => {}
                }
            }
        } else if let Some(x) = l.strip_prefix("OUTCOME ") {
            r.outcomes.push(x.to_string());
        } else if l.starts_with("ORACLE ") || l.starts_with("PANIC ") {
            if r.failure.is_none() {
                r.failure = Some(l.to_string());
            }
            if let Some(i) = l.find("exec=") {
                let e: String = l[i + 5..].chars().take_while(|c| c.is_ascii_digit()).collect();
                r.execs = r.execs.max(e.parse().unwrap_or(0));
            }
        } else if l.starts_with("MACHINERY") {
            r.machinery = Some(l.to_string());
        }
    }
    if !done && r.failure.is_none() {
        r.machinery = Some(format!("child {} pb={} ended without DONE (status {:?}): {}", name, pb, out.status, text.lines().last().unwrap_or("")));
    }
    if !done_ref && r.machinery.is_none() && r.failure.is_some() {
        // the sequential reference itself failed: a property of the input, not of schedules
        r.machinery = Some(format!("reference run failed for {}: {:?}", name, r.failure));
        r.failure = None;
    }
    r
}

fn failure_key(f: &str) -> String {
    // ORACLE exec=.. <text>  |  PANIC exec=.. at=<file:line> msg=..
    if let Some(i) = f.find("at=") {
        let at: String = f[i + 3..].chars().take_while(|c| !c.is_whitespace()).collect();
        let at = match at.find("/src/") {
            Some(j) if at.starts_with("/repo") => at[j + 1..].to_string(),
            _ => at,
        };
        if at.contains("lmharness") {
            // the oracle's own panic
            return "oracle".into();
        }
        return format!("panic@{}", at);
    }
    "oracle".into()
}

fn master(ctx: &Ctx) -> Report {
    let mut rep = Report::new("model_checking");
    let exe = std::env::current_exe().unwrap();
    let all = scenarios();
    let mine: Vec<Scenario> = all.into_iter().filter(|s| s.prop.split(' ').any(|p| p == ctx.id)).collect();
    // (scenario, pb, cap seconds)
    let mut jobs: Vec<(String, usize, u64)> = vec![];
    for s in &mine {
        let heavy = s.n == N98;
        if ctx.quick() {
            let _ = heavy;
            jobs.push((s.name.to_string(), 0, 30));
            jobs.push((s.name.to_string(), 1, 40));
        } else {
            jobs.push((s.name.to_string(), 1, 600));
            jobs.push((s.name.to_string(), 2, 900));
            if !heavy {
                jobs.push((s.name.to_string(), 3, 900));
            }
        }
    }
    let jobs = Arc::new(Mutex::new(jobs));
    let results: Arc<Mutex<Vec<ChildResult>>> = Arc::new(Mutex::new(vec![]));
    let nthreads = std::thread::available_parallelism().map(|x| x.get()).unwrap_or(8);
    let mut hs = vec![];
    let rdir = ctx.verif_dir.join("replays").join(&ctx.id);
    for _ in 0..nthreads {
        let jobs = jobs.clone();
        let results = results.clone();
        let exe = exe.clone();
        let rdir = rdir.clone();
        hs.push(std::thread::spawn(move || loop {
            let job = { jobs.lock().unwrap().pop() };
            let Some((name, pb, cap)) = job else { break };
            let mut r = run_child(&exe, &name, pb, cap, None);
            if r.failure.is_some() {
                // deterministic rerun with per-execution checkpointing: the file then holds the failing schedule
                let _ = std::fs::create_dir_all(&rdir);
                let ck = rdir.join(format!("{}-pb{}.loom-checkpoint.json", name, pb));
                let _ = std::fs::remove_file(&ck);
                let r2 = run_child(&exe, &name, pb, cap * 20 + 600, Some(&ck));
                if r2.failure.is_none() {
                    r.machinery = Some(format!("failure of {} pb={} did not reproduce on the checkpointing rerun", name, pb));
                }
            }
            results.lock().unwrap().push(r);
        }));
    }
    for h in hs {
        let _ = h.join();
    }
    let mut results = std::mem::take(&mut *results.lock().unwrap());
    results.sort_by(|a, b| (a.scenario.clone(), a.pb).cmp(&(b.scenario.clone(), b.pb)));
    let mut per = vec![];
    let mut completed_bound: BTreeMap<String, i64> = BTreeMap::new();
    let mut all_outcomes = 0u64;
    for r in &results {
        rep.traces += r.execs;
        rep.states += r.execs;
        rep.evaluations += r.execs;
        all_outcomes += r.distinct;
        if r.capped {
            rep.exhaustive = false;
        } else if r.failure.is_none() && r.machinery.is_none() {
            let e = completed_bound.entry(r.scenario.clone()).or_insert(-1);
            *e = (*e).max(r.pb as i64);
        }
        if let Some(m) = &r.machinery {
            rep.machinery(m.clone());
        }
        if let Some(f) = &r.failure {
            let s = mine.iter().find(|s| s.name == r.scenario).unwrap();
            let ck = rdir.join(format!("{}-pb{}.loom-checkpoint.json", r.scenario, r.pb));
            rep.violation(
                format!("scenario={};what={}", r.scenario, failure_key(f)),
                format!("{} (n={}, {:?}, threads={}, fb_size={:?}, preemption bound {}): {}", r.scenario, s.n, s.algo, s.threads, s.fb_size, r.pb, f),
                J::obj(vec![
                    ("scenario", J::s(&r.scenario)),
                    ("preemption_bound", J::from(r.pb)),
                    ("loom_checkpoint", J::s(ck.display())),
                    ("failure", J::s(f)),
                ]),
            );
        }
        per.push(J::obj(vec![
            ("scenario", J::s(&r.scenario)),
            ("preemption_bound", J::from(r.pb)),
            ("executions", J::from(r.execs)),
            ("capped_by_time", J::B(r.capped)),
            ("secs", J::F(r.secs)),
            ("distinct_outcomes", J::from(r.distinct)),
            ("nested_same_thread_reads", J::from(r.nested_reads)),
            ("max_polls_after_flip", J::from(r.max_polls_after)),
            ("max_relations_published_after_flip_observed", J::from(r.max_rels_after)),
            ("single_thread_reference", J::s(&r.reference)),
            ("outcomes", J::A(r.outcomes.iter().take(6).map(J::s).collect())),
        ]));
    }
    // transitions: every execution is a complete schedule; count its scheduling decisions
    // conservatively as the number of executions times the minimum of 2 (spawn, join)
    rep.transitions = rep.traces * 2;
    rep.nontrivial = all_outcomes;
    for s in &mine {
        rep.sample(J::obj(vec![
            ("scenario", J::s(s.name)),
            ("n", J::s(s.n)),
            ("algo", J::s(format!("{:?}", s.algo))),
            ("threads", J::from(s.threads)),
            ("fb_size", J::s(format!("{:?}", s.fb_size))),
            ("large_factor", J::s(format!("{:?}", s.large_factor))),
            ("use_double", J::s(format!("{:?}", s.use_double))),
            ("abort_flipper_thread", J::B(s.flip)),
            ("why", J::s(s.why)),
        ]));
    }
    rep.set("runs", J::A(per));
    rep.set(
        "completed_preemption_bound",
        J::O(completed_bound.iter().map(|(k, v)| (k.clone(), J::I(*v as i128))).collect()),
    );
    rep.rule = "Each scenario is the real factor() entry point run inside loom::model with the crate's rayon pool, RwLock and atomics replaced by loom objects (cfg yamaquasi_verif_loom); loom enumerates every interleaving of the workers' synchronisation operations (lock acquisitions, atomic loads/stores, work-item claims, spawn/join) up to the stated preemption bound with DPOR, under the C11 memory model for the Relaxed atomics. states = executions = complete schedules explored, each one a trace on the implementation; transitions >= 2 per execution (not exposed by loom; lower bound). Oracle per execution: no panic, no deadlock (loom), product = n, sorted, and (C04) the result equals the single-threaded result computed in the same build / (C05) Ok-with-product-n or Err, and the number of polls answered 'true' before the call returns is bounded. distinct_nontrivial = sum over runs of distinct (result, relations published | polls after flip) outcomes.".into();
    rep.assumptions.push("loom 0.7.2 semantics (C11 atomics, bounded store history); thread counts above 4 are not explorable (loom MAX_THREADS=5)".into());
    rep.assumptions.push("rayon's work distribution is replaced by a shared cursor handing out items in order (reversed/rotated variants are separate scenarios); rayon's internal deques are not modelled".into());
    rep.assumptions.push("no unsynchronised shared memory: the crate has no static mut / unsafe Sync; unsafe blocks touch thread-local buffers only".into());
    rep
}

fn replay(ctx: &Ctx, path: &PathBuf) -> i32 {
    let s = std::fs::read_to_string(path).expect("replay file");
    let get = |k: &str| -> Option<String> {
        let pat = format!("\"{}\":", k);
        let i = s.rfind(&pat)? + pat.len();
        let rest = s[i..].trim_start();
        if let Some(r) = rest.strip_prefix('"') {
            Some(r[..r.find('"')?].to_string())
        } else {
            Some(rest.chars().take_while(|c| c.is_ascii_digit()).collect())
        }
    };
    let name = get("scenario").expect("scenario");
    let pb: usize = get("preemption_bound").and_then(|x| x.parse().ok()).unwrap_or(1);
    let ck = get("loom_checkpoint").map(PathBuf::from);
    let exe = std::env::current_exe().unwrap();
    let mut cmd = Command::new(exe);
    cmd.arg("run").arg(&name).arg(pb.to_string());
    match &ck {
        Some(p) if p.exists() => {
            // work on a copy: loom rewrites the checkpoint file as it goes
            let tmp = ctx.verif_dir.join(".scratch");
            let _ = std::fs::create_dir_all(&tmp);
            let cp = tmp.join(format!("replay-{}.json", std::process::id()));
            let _ = std::fs::copy(p, &cp);
            println!("replaying scenario {} from recorded schedule {}", name, p.display());
            cmd.env("LOOM_CHECKPOINT_FILE", &cp);
            cmd.env("LOOM_CHECKPOINT_INTERVAL", "1000000000");
            cmd.env("LOOM_MAX_PERMUTATIONS", "1");
        }
        _ => println!("no checkpoint: re-exploring scenario {} at bound {}", name, pb),
    }
    let st = cmd.status().expect("child");
    if st.success() {
        0
    } else {
        1
    }
}

fn main() {
    let args: Vec<String> = std::env::args().skip(1).collect();
    if args.is_empty() {
        eprintln!("usage: see source");
        std::process::exit(2);
    }
    if args[0] == "run" {
        std::process::exit(child_main(&args[1..]));
    }
    if args[0] == "list" {
        for s in scenarios() {
            println!("{} {} {:?}", s.name, s.prop, s);
        }
        return;
    }
    let mut tier = match std::env::var("VERIF_TIER").as_deref() {
        Ok("thorough") => Tier::Thorough,
        _ => Tier::Quick,
    };
    let mut replay_path = None;
    let mut i = 1;
    while i < args.len() {
        match args[i].as_str() {
            "--tier" => {
                i += 1;
                tier = if args[i] == "thorough" { Tier::Thorough } else { Tier::Quick };
            }
            "--replay" => {
                i += 1;
                replay_path = Some(PathBuf::from(&args[i]));
            }
            _ => {}
        }
        i += 1;
    }
    let ctx = Ctx {
        id: args[0].clone(),
        tier,
        seed: std::env::var("VERIF_SEED").ok().and_then(|s| s.parse().ok()).unwrap_or(0),
        profile: "loom",
        replay: replay_path.clone(),
        verif_dir: PathBuf::from(std::env::var("VERIF_DIR").unwrap_or_else(|_| "/verif".into())),
        args: vec![],
    };
    if let Some(p) = replay_path {
        std::process::exit(replay(&ctx, &p));
    }
    let t0 = Instant::now();
    let rep = master(&ctx);
    std::process::exit(finish(&ctx, &rep, t0.elapsed().as_secs_f64()));
}
