#!/bin/sh
# Builds the harness crates from files on disk only (offline).
set -e
cd "$(dirname "$0")"
export CARGO_NET_OFFLINE=true
(cd harness && CARGO_TARGET_DIR=../.target-rel RUSTFLAGS="--cfg yamaquasi_verif" cargo build --release --offline -q)
(cd harness && CARGO_TARGET_DIR=../.target-chk RUSTFLAGS="--cfg yamaquasi_verif" cargo build --profile chk --offline -q)
if [ -d lmharness ]; then
  (cd lmharness && CARGO_TARGET_DIR=../.target-loom RUSTFLAGS="--cfg yamaquasi_verif --cfg yamaquasi_verif_loom" cargo build --release --offline -q)
fi
echo setup ok
