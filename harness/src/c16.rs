//! C16: group-order methods find every factor their bounds promise, and nothing false.
//! Promise-based black box: for every stage-2 prime l in (B1, B2_reported] a prime p with
//! p -+ 1 = (B1-smooth part) * l is constructed; ECM through the order of the real curve's
//! generator modulo p computed with independent affine arithmetic.

use rayon::prelude::*;
use yamaquasi::arith_montgomery::ZmodN;
use yamaquasi::ecm::{verif_access as ea, Curve, SmoothBase, Suyama11};
use yamaquasi::ecm128::{self, verif_access as e128};
use yamaquasi::{pollard_pm1, pollard_rho, pp1, Uint, Verbosity};

use crate::c15::{invmod, mulmod, powmod, Aff, RefCurve};
use crate::common::*;
use crate::refmodel::{self as rm, W};

struct Tally {
    evals: u64,
    promised: u64,
    not_constructible: u64,
    shapes: u64,
    bad: Vec<(String, String)>,
}

impl Tally {
    fn new() -> Tally {
        Tally {
            evals: 0,
            promised: 0,
            not_constructible: 0,
            shapes: 0,
            bad: vec![],
        }
    }
}

/// max prime power of q below b1, as the routines build it (q^e < b1 strictly, at least q).
fn max_pow_below(q: u64, b1: u64) -> u64 {
    let mut pw = q;
    while pw * q < b1 {
        pw *= q;
    }
    pw
}

/// Is s a divisor of the stage-1 exponent for bound b1 (every prime power of s is at most
/// the maximal power below b1; primes must not exceed b1)?
fn stage1_divides(s: u64, b1: u64) -> bool {
    for (q, e) in rm::factor_u64(s) {
        if q > b1 {
            return false;
        }
        if q.pow(e) > max_pow_below(q, b1) {
            return false;
        }
    }
    true
}

/// A prime q such that neither q-1 nor q+1 is caught with bound b2: q = 2r+1 with r prime
/// above 10*b2 and (q+1)/2 having a prime factor above 10*b2.
fn safe_q(b2: f64) -> u64 {
    let mut r = rm::next_prime_u64((10.0 * b2) as u64 + 1000);
    loop {
        let q = 2 * r + 1;
        if rm::is_prime_u64(q) {
            let big = rm::factor_u64((q + 1) / 2).last().unwrap().0;
            if big as f64 > 10.0 * b2 {
                return q;
            }
        }
        r = rm::next_prime_u64(r + 1);
    }
}

fn check_shape(t: &mut Tally, name: &str, n: &W, parts: &[W]) {
    t.shapes += 1;
    let prod = parts.iter().fold(W::ONE, |a, b| a * *b);
    if prod != *n || parts.iter().any(|x| *x <= W::ONE) {
        t.bad.push((
            format!("method={};what=bad-shape", name),
            format!("{} on n={} returned parts {:?} (product or triviality)", name, n, parts.iter().map(|x| x.to_string()).collect::<Vec<_>>()),
        ));
    }
}

#[allow(dead_code)]
fn band(l: u64, b1: u64, b2rep: f64) -> &'static str {
    let lf = l as f64;
    if lf > 0.97 * b2rep {
        "top-3-percent"
    } else if lf < 1.1 * b1 as f64 + 10.0 {
        "just-above-b1"
    } else {
        "middle"
    }
}

/// P-1 (plus = false) / P+1 (plus = true) for one (B1, B2) pair: every prime l in (B1, B2_reported].
fn pm_pair(plus: bool, b1: u64, b2: f64, primes: &[u64], edges_only: bool) -> Tally {
    let mut t = Tally::new();
    let b2rep: f64 = if plus {
        yamaquasi::params::stage2_params(b2).0
    } else {
        let ((rep, _, _), thr) = pollard_pm1::verif_access2::stage2_params(b2);
        if b2 > thr {
            rep
        } else {
            // prime walk: covers up to the requested b2; the run reports the nearest row
            rep.min(b2)
        }
    };
    let q = safe_q(b2.max(b2rep));
    let name = if plus { "pp1" } else { "pm1" };
    let mut ls: Vec<u64> = primes.iter().cloned().filter(|&l| l > b1 && (l as f64) <= b2rep).collect();
    if edges_only {
        // the edges of the baby/giant-step grid: first and last covered values
        ls.retain(|&l| (l as f64) > 0.99 * b2rep || (l as f64) < 1.1 * b1 as f64 + 200.0);
    }
    let results: Vec<(u64, Option<(String, String)>, bool, u64)> = ls
        .par_iter()
        .map(|&l| {
            // least even s dividing the stage-1 exponent with p = s*l -+ 1 prime
            let mut found = None;
            let mut s = 2u64;
            while s <= 2000 {
                if stage1_divides(s, b1) {
                    let p = if plus { s * l - 1 } else { s * l + 1 };
                    if rm::is_prime_u64(p) && p != q {
                        if !plus {
                            found = Some((p, 0u64));
                            break;
                        }
                        // P+1: a seed whose discriminant is a non-residue mod p
                        for seed in 3..=20u64 {
                            let d = (seed * seed - 4) % p;
                            if d != 0 && powmod(d, (p - 1) / 2, p) == p - 1 {
                                found = Some((p, seed));
                                break;
                            }
                        }
                        if found.is_some() {
                            break;
                        }
                    }
                }
                s += 2;
            }
            let Some((p, seed)) = found else { return (l, None, false, 0) };
            let n = Uint::from_digit(p) * Uint::from_digit(q);
            let res = guarded(|| if plus { pp1::pp1(n, seed, b1, b2, Verbosity::Silent) } else { pollard_pm1::pm1_impl(&n, b1, b2, Verbosity::Silent) });
            let mut shapes = 0;
            let bad = match res {
                Err(e) => Some((format!("method={};what=panic;site={}", name, e.site), format!("{}(n={}*{}, B1={}, B2={:e}) panicked: {}", name, p, q, b1, b2, e.short()))),
                Ok(None) => Some((
                    format!("method={};row={:e};what=missed;MISS={}", name, b2rep, l),
                    format!("{}(n={}*{}, seed {}, B1={}, B2={:e} reported {:e}) returned None although p{}1 = {} * {} (l prime <= reported B2, cofactor divides the stage-1 exponent)", name, p, q, seed, b1, b2, b2rep, if plus { "+" } else { "-" }, if plus { (p + 1) / l } else { (p - 1) / l }, l),
                )),
                Ok(Some((fs, rest))) => {
                    shapes = 1;
                    let nw = rm::w_from(&n);
                    let mut parts: Vec<W> = fs.iter().map(rm::w_from).collect();
                    parts.push(rm::w_from(&rest));
                    let prod = parts.iter().fold(W::ONE, |a, b| a * *b);
                    if prod != nw || parts.iter().any(|x| *x <= W::ONE) {
                        Some((format!("method={};what=bad-shape", name), format!("{}(n={}*{}) returned {:?} and {}", name, p, q, fs, rest)))
                    } else if !parts.contains(&W::from_digit(p)) {
                        Some((format!("method={};what=no-split", name), format!("{}(n={}*{}) returned {:?} and {}: p is not separated", name, p, q, fs, rest)))
                    } else {
                        None
                    }
                }
            };
            (l, bad, true, shapes)
        })
        .collect();
    for (_l, bad, constructed, shapes) in results {
        t.evals += 1;
        t.shapes += shapes;
        if constructed {
            t.promised += 1;
        } else {
            t.not_constructible += 1;
        }
        if let Some(b) = bad {
            t.bad.push(b);
        }
    }
    // Three prime factors: p1 is promised by stage 1 with the largest prime of its p1-+1 in the
    // LAST stage-1 block (just below B1), p by stage 2, q resistant. The answer must still
    // multiply to n and separate both promised primes: the ring is shrunk between stages, and
    // every constant carried across the shrink must be re-expressed in the new ring.
    // For P+1 one seed must have a non-residue discriminant modulo p1 and modulo p.
    if !edges_only {
        let below: Vec<u64> = primes.iter().cloned().filter(|&x| x < b1 && x > b1 / 2 && x > 3).rev().take(3).collect();
        let ls3: Vec<u64> = {
            let v: Vec<u64> = primes.iter().cloned().filter(|&l| l > b1 && (l as f64) <= 0.9 * b2rep).collect();
            let n = v.len();
            if n == 0 { vec![] } else { vec![v[0], v[n / 3], v[n / 2], v[n - 1]] }
        };
        let nonres = |seed: u64, p: u64| -> bool {
            let d = (seed * seed - 4) % p;
            d != 0 && powmod(d, (p - 1) / 2, p) == p - 1
        };
        let mk = |s: u64, l: u64| if plus { s * l - 1 } else { s * l + 1 };
        for &tp in &below {
            // p1 = s*tp +- 1 with s even dividing the stage-1 exponent
            let p1s: Vec<u64> = (2..=400u64).step_by(2).filter(|&s| stage1_divides(s, b1)).map(|s| mk(s, tp)).filter(|&x| rm::is_prime_u64(x) && x != q).take(if plus { 6 } else { 1 }).collect();
            for &l in &ls3 {
                let mut case: Option<(u64, u64, u64)> = None;
                'search: for &p1 in &p1s {
                    for p in (2..=2000u64).step_by(2).filter(|&s| stage1_divides(s, b1)).map(|s| mk(s, l)).filter(|&x| rm::is_prime_u64(x) && x != q && x != p1).take(if plus { 6 } else { 1 }) {
                        if !plus {
                            case = Some((p1, p, 0));
                            break 'search;
                        }
                        if let Some(seed) = (3..=20u64).find(|&sd| nonres(sd, p1) && nonres(sd, p)) {
                            case = Some((p1, p, seed));
                            break 'search;
                        }
                    }
                }
                let Some((p1, p, seed)) = case else { continue };
                let n = Uint::from_digit(p1) * Uint::from_digit(p) * Uint::from_digit(q);
                t.evals += 1;
                t.promised += 1;
                let call = format!("{}(n={}*{}*{}, {}B1={}, B2={:e})", name, p1, p, q, if plus { format!("seed {}, ", seed) } else { String::new() }, b1, b2);
                match guarded(|| if plus { pp1::pp1(n, seed, b1, b2, Verbosity::Silent) } else { pollard_pm1::pm1_impl(&n, b1, b2, Verbosity::Silent) }) {
                    Err(e) => t.bad.push((format!("method={};what=panic;site={}", name, e.site), format!("{} panicked: {}", call, e.short()))),
                    Ok(None) => t.bad.push((format!("method={};row={:e};what=missed-3-factors", name, b2rep), format!("{} returned None although {} is promised by stage 1 and {} by stage 2", call, p1, p))),
                    Ok(Some((fs, rest))) => {
                        t.shapes += 1;
                        let nw = rm::w_from(&n);
                        let mut parts: Vec<W> = fs.iter().map(rm::w_from).collect();
                        parts.push(rm::w_from(&rest));
                        let prod = parts.iter().fold(W::ONE, |a, b| a * *b);
                        if prod != nw || fs.iter().any(|x| rm::w_from(x) <= W::ONE) {
                            t.bad.push((format!("method={};what=bad-shape-3-factors", name), format!("{} returned factors {:?} and cofactor {}: product is not n", call, fs, rest)));
                        } else if !parts.contains(&W::from_digit(p1)) || !parts.contains(&W::from_digit(p)) {
                            t.bad.push((format!("method={};what=no-split-3-factors", name), format!("{} returned {:?} and {}: the two promised primes are not both separated", call, fs, rest)));
                        }
                    }
                }
            }
        }
    }
    t
}

// ------------------------------------------------------------ ECM

/// The stage-1 exponent as the property defines it: product of maximal prime powers below b1.
fn stage1_exponent(b1: u64, primes: &[u64]) -> Vec<u64> {
    primes.iter().take_while(|&&q| q < b1).map(|&q| max_pow_below(q, b1)).collect()
}

/// Order of Q if it is at most `bound` (baby-step giant-step on the affine law); None otherwise
/// or when an exceptional addition is met.
fn small_order(rc: &RefCurve, qpt: Aff, bound: u64) -> Option<Option<u64>> {
    let id = (0u64, 1u64);
    if qpt == id {
        return Some(Some(1));
    }
    let m = (bound as f64).sqrt() as u64 + 2;
    // baby steps j*Q, j in 0..m
    let mut table = std::collections::HashMap::new();
    let mut cur = id;
    for j in 0..m {
        table.entry(cur).or_insert(j);
        cur = rc.add(cur, qpt)?;
    }
    // cur = m*Q ; giant steps: find i with i*m*Q = j*Q  => order | i*m - j
    let step = cur;
    let mut g = step;
    let mut best: Option<u64> = None;
    for i in 1..=m + 1 {
        if let Some(&j) = table.get(&g) {
            let cand = i * m - j;
            if cand > 0 && cand <= bound + m {
                best = Some(cand);
                break;
            }
        }
        g = rc.add(g, step)?;
    }
    let Some(mult) = best else { return Some(None) };
    // reduce the multiple to the exact order
    let mut ord = mult;
    for (f, _) in rm::factor_u64(mult) {
        while ord % f == 0 && rc.mul_w(&W::from_digit(ord / f), qpt)? == id {
            ord /= f;
        }
    }
    Some(if ord <= bound { Some(ord) } else { None })
}

struct CurveModP {
    rc: RefCurve,
    g: Aff,
}

fn curve_mod_p(p: u64, seed: u32) -> Option<CurveModP> {
    let zn = ZmodN::new(Uint::from_digit(p));
    let su = Suyama11::new(&zn).ok()?;
    let c = su.element(seed).and_then(|pt| su.params_point(&pt)).and_then(|g| Curve::twisted_from_point(zn.clone(), g)).ok()?;
    let (a, d) = c.a_d();
    let rc = RefCurve {
        q: p,
        a: if a == 1 { 1 } else { p - 1 },
        d: d.digits()[0] % p,
    };
    let (x, y, z) = ea::point_xyz(c.gen());
    let v = |m| zn.to_int(m).digits()[0];
    let zi = invmod(v(z), p)?;
    let g = (mulmod(v(x), zi, p), mulmod(v(y), zi, p));
    if !rc.on_curve(g) || rc.d == 0 || rc.d == rc.a {
        return None;
    }
    Some(CurveModP { rc, g })
}

/// Some(true) = promised (order = B1-smooth part times at most one prime <= b2rep),
/// Some(false) = not promised, None = undecidable (exceptional arithmetic).
fn ecm_promise(cm: &CurveModP, exps: &[u64], b2rep: f64) -> Option<bool> {
    let mut q = cm.g;
    for &e in exps {
        q = cm.rc.mul_w(&W::from_digit(e), q)?;
    }
    match small_order(&cm.rc, q, b2rep as u64)? {
        None => Some(false),
        Some(1) => Some(true),
        Some(o) => Some(rm::is_prime_u64(o)),
    }
}

fn ecm_pair(b1: u64, b2: f64, plo: u64, phi: u64, primes: &[u64], use128: bool, use512: bool, seeds: std::ops::RangeInclusive<u32>) -> Tally {
    let mut t = Tally::new();
    let b2rep = yamaquasi::params::stage2_params(b2).0;
    let exps = stage1_exponent(b1, primes);
    let ps: Vec<u64> = primes.iter().cloned().filter(|&p| p >= plo && p < phi && p % 3 != 0).collect();
    let sb_small = SmoothBase::new(b1 as usize, false);
    let sb_large = SmoothBase::new(b1 as usize, true);
    for seed in seeds {
        // promise flags of every prime for this curve
        let flags: Vec<Option<bool>> = ps.par_iter().map(|&p| curve_mod_p(p, seed).and_then(|cm| ecm_promise(&cm, &exps, b2rep))).collect();
        // partners: primes q near 2^20 for which the point left after stage 1 has an order beyond
        // 4 x the reported B2 (so q is caught neither by the promise nor by an accidental hit
        // of the baby-step giant-step grid)
        let mut unpromised: Vec<u64> = vec![];
        let mut q = rm::next_prime_u64(((1u64 << 20).max((b2rep as u64) << 14)) + 1000 * seed as u64);
        let mut tries = 0;
        while unpromised.len() < 4 {
            tries += 1;
            assert!(tries < 5000, "no partner prime found");
            if q % 3 != 0 {
                if let Some(cm) = curve_mod_p(q, seed) {
                    let mut pt = Some(cm.g);
                    for &e in &exps {
                        pt = pt.and_then(|x| cm.rc.mul_w(&W::from_digit(e), x));
                    }
                    if let Some(pt) = pt {
                        let so = small_order(&cm.rc, pt, 4 * b2rep as u64);
                        if std::env::var("VERIF_DEBUG").is_ok() && tries < 20 {
                            eprintln!("partner q={} seed={} small_order={:?}", q, seed, so);
                        }
                        if so == Some(None) {
                            unpromised.push(q);
                        }
                    } else if std::env::var("VERIF_DEBUG").is_ok() && tries < 20 {
                        eprintln!("partner q={} seed={} stage1 exceptional", q, seed);
                    }
                }
            }
            q = rm::next_prime_u64(q + 1);
        }
        let res: Vec<(u64, Vec<(String, String)>, u64)> = ps
            .par_iter()
            .zip(&flags)
            .filter(|(_, f)| **f == Some(true))
            .map(|(&p, _)| {
                let mut bad = vec![];
                let mut shapes = 0;
                // two independent partners; a miss counts only if both fail
                let partners = [unpromised[(p as usize) % unpromised.len()], unpromised[(p as usize / 7 + 1) % unpromised.len()]];
                for which in ["ecm128", "ecm"] {
                    if which == "ecm128" && !use128 || which == "ecm" && !use512 {
                        continue;
                    }
                    let mut found = false;
                    let mut detail = String::new();
                    for &q in &partners {
                        if q == p {
                            continue;
                        }
                        let n = Uint::from_digit(p * q);
                        let zn = ZmodN::new(n);
                        let r = guarded(|| -> Option<(W, W)> {
                            let su = Suyama11::new(&zn).ok()?;
                            let g = su.element(seed).and_then(|pt| su.params_point(&pt)).ok()?;
                            if which == "ecm" {
                                let c = Curve::twisted_from_point(zn.clone(), g).ok()?;
                                ea::ecm_curve(&sb_large, &zn, &c, b2).map(|(a, b)| (rm::w_from(&a), rm::w_from(&b)))
                            } else {
                                let (gx, gy, gz) = ea::point_xyz(&g);
                                // n < 2^64: the 128-bit code uses R = 2^64, same as ZmodN with one word
                                let raw = |m: yamaquasi::arith_montgomery::MInt| m.0[0] as u128;
                                let c = ecm128::Curve::from_point((p * q) as u128, e128::point_from_raw(raw(gx), raw(gy), raw(gz)));
                                e128::ecm_curve(&c, &sb_small, b2).map(|(a, b)| (W::from_digit(a as u64), W::from_digit(b as u64)))
                            }
                        });
                        match r {
                            Err(e) => {
                                bad.push((format!("method={};what=panic;site={}", which, e.site), format!("{} curve seed {} on n={}*{} (B1={}, B2={:e}) panicked: {}", which, seed, p, q, b1, b2, e.short())));
                                found = true;
                                break;
                            }
                            Ok(Some((a, b))) => {
                                shapes += 1;
                                let nw = W::from_digit(p * q);
                                if a * b != nw || a <= W::ONE || b <= W::ONE {
                                    bad.push((format!("method={};what=bad-shape", which), format!("{} seed {} on n={}*{} returned ({}, {})", which, seed, p, q, a, b)));
                                }
                                found = true;
                                break;
                            }
                            Ok(None) => detail = format!("n={}*{}", p, q),
                        }
                    }
                    if !found {
                        bad.push((
                            format!("method={};b1={};b2={:e};what=missed", which, b1, b2),
                            format!("{} single curve (Suyama-11 seed {}) with B1={} B2={:e} (reported {:e}) returned None on {} and on a second partner although the order of the generator modulo {} is a product of prime powers below B1 times at most one prime <= reported B2", which, seed, b1, b2, b2rep, detail, p),
                        ));
                    }
                }
                (p, bad, shapes)
            })
            .collect();
        for (_p, bad, shapes) in res {
            t.evals += 1;
            t.promised += 1;
            t.shapes += shapes;
            t.bad.extend(bad);
        }
        t.not_constructible += flags.iter().filter(|f| f.is_none()).count() as u64;
    }
    t
}

pub fn run(ctx: &Ctx) -> Report {
    let mut rep = Report::new("exploration");
    let primes = rm::primes_below(ctx.pick(300_000, 2_100_000));
    let primes = std::sync::Arc::new(primes);
    let mut jobs: Vec<Box<dyn Fn() -> (String, Tally) + Send + Sync>> = vec![];
    // ---- P-1: strategy pairs and table rows
    let mut pm1_pairs: Vec<(u64, f64)> = vec![(600, 40e3), (30, 100e3), (120, 100e3), (2000, 100e3), (10_000, 270e3), (120, 200e3)];
    if !ctx.quick() {
        pm1_pairs.extend([(16384, 450e3), (255, 450e3), (255, 980e3), (2000, 1.9e6), (525, 1.9e6)]);
    }
    for (b1, b2) in pm1_pairs {
        let pr = primes.clone();
        jobs.push(Box::new(move || (format!("pm1 B1={} B2={:e}", b1, b2), pm_pair(false, b1, b2, &pr, false))));
    }
    // larger rows: the grid edges only (top 1% of the reported B2 and just above B1)
    {
        let big = std::sync::Arc::new(rm::primes_below(ctx.pick(4_100_000, 19_000_000)));
        let mut rows: Vec<(u64, f64)> = vec![(16384, 450e3), (2000, 980e3), (2000, 1.9e6)];
        if !ctx.quick() {
            rows.extend([(2000, 4e6), (50_000, 8e6), (50_000, 18e6)]);
        }
        for (b1, b2) in rows {
            let pr = big.clone();
            jobs.push(Box::new(move || (format!("pm1 B1={} B2={:e} (grid edges)", b1, b2), pm_pair(false, b1, b2, &pr, true))));
        }
        let mut rows: Vec<(u64, f64)> = vec![(1000, 53e3), (1500, 81e3), (3600, 181e3), (10_000, 554e3)];
        if !ctx.quick() {
            rows.extend([(10_000, 1.37e6), (10_000, 2.3e6), (10_000, 4.7e6)]);
        }
        for (b1, b2) in rows {
            let pr = big.clone();
            jobs.push(Box::new(move || (format!("pp1 B1={} B2={:e} (grid edges)", b1, b2), pm_pair(true, b1, b2, &pr, true))));
        }
    }
    // ---- P+1: rows of the shared table
    let mut pp1_pairs: Vec<(u64, f64)> = vec![(16, 660.), (33, 660.), (40, 1080.), (50, 1920.), (100, 3e3), (105, 5.04e3), (180, 7.7e3), (120, 7.7e3), (350, 13.2e3), (600, 20e3), (1000, 33e3)];
    if !ctx.quick() {
        pp1_pairs.extend([(1000, 53e3), (1500, 81e3), (3600, 181e3), (2000, 323e3), (10000, 554e3), (5000, 1.37e6)]);
    }
    for (b1, b2) in pp1_pairs {
        let pr = primes.clone();
        jobs.push(Box::new(move || (format!("pp1 B1={} B2={:e}", b1, b2), pm_pair(true, b1, b2, &pr, false))));
    }
    // ---- ECM: both implementations, single curve, Suyama seeds 2..9
    let (plo, phi) = (1u64 << 10, ctx.pick(1u64 << 13, 1 << 16));
    let mut ecm_pairs: Vec<(u64, f64, bool, bool)> = vec![(16, 660., true, true), (40, 1080., true, true), (50, 1920., true, true), (100, 3e3, true, false), (200, 7.7e3, false, true)];
    if !ctx.quick() {
        ecm_pairs.extend([(180, 7.7e3, true, true), (350, 13.2e3, true, false), (600, 20e3, true, true), (2000, 81e3, false, true)]);
    }
    for (b1, b2, u128_, u512) in ecm_pairs {
        let pr = primes.clone();
        jobs.push(Box::new(move || (format!("ecm B1={} B2={:e}", b1, b2), ecm_pair(b1, b2, plo, phi, &pr, u128_, u512, 2..=9))));
    }
    // the FFT stage 2 of ecm (d1 >= 4000): B2 = 2.3e6 on primes around 2^21
    {
        let lo = 1u64 << 21;
        let hi = lo + ctx.pick(1 << 12, 1 << 15);
        let big: Vec<u64> = (lo..hi).filter(|&x| rm::is_prime_u64(x)).collect();
        let mut all = rm::primes_below(600);
        all.extend(big);
        let smax = ctx.pick(3, 6);
        jobs.push(Box::new(move || ("ecm B1=500 B2=2.3e6 (FFT stage 2)".into(), ecm_pair(500, 2.3e6, lo, hi, &all, false, true, 2..=smax))));
    }
    // ---- gcd_factors (the batch-gcd splitter behind every stage): small-scope exhaustive.
    // For n = p1*p2*p3 and every assignment of first-appearance positions of the three primes
    // in a sequence of every length L, the factors must come out grouped exactly by position
    // (primes entering at different positions are separated; those present from position 0 are
    // not reported), and the cofactor must be n / product.
    {
        let lmax3 = ctx.pick(20usize, 32);
        let lmax2 = ctx.pick(48usize, 96);
        jobs.push(Box::new(move || {
            let mut t = Tally::new();
            let ps = [1000003u64, 1000033, 1000037];
            let sweep = |t: &mut Tally, k: usize, lmax: usize| {
                let n: u64 = ps[..k].iter().product::<u64>();
                let nu = Uint::from_digit(n);
                let zn = ZmodN::new(nu);
                for len in 1..=lmax {
                    let total = (len + 1).pow(k as u32);
                    for code in 0..total {
                        let mut c = code;
                        let mut pos = [0usize; 3];
                        for i in 0..k {
                            pos[i] = c % (len + 1); // len = never appears
                            c /= len + 1;
                        }
                        let vals: Vec<_> = (0..len)
                            .map(|j| {
                                let mut v = 7u64; // a unit
                                for i in 0..k {
                                    if pos[i] <= j {
                                        v = v * ps[i] % n;
                                    }
                                }
                                // a zero residue stands for "all primes present"
                                zn.from_int(Uint::from_digit(v))
                            })
                            .collect();
                        // expected groups
                        let mut groups: std::collections::BTreeMap<usize, u64> = Default::default();
                        for i in 0..k {
                            if pos[i] >= 1 && pos[i] < len {
                                *groups.entry(pos[i]).or_insert(1) *= ps[i];
                            }
                        }
                        let mut want: Vec<u64> = groups.values().cloned().collect();
                        want.sort_unstable();
                        t.evals += 1;
                        let r = guarded(|| yamaquasi::arith_montgomery::gcd_factors(&nu, &vals));
                        match r {
                            Err(e) => t.bad.push((format!("method=gcd_factors;what=panic;site={}", e.site), format!("gcd_factors panicked for first-appearance positions {:?} in a sequence of length {}: {}", &pos[..k], len, e.short()))),
                            Ok((facs, cof)) => {
                                let mut got: Vec<u64> = facs.iter().map(|f| f.digits()[0]).collect();
                                got.sort_unstable();
                                let prod: u64 = want.iter().product();
                                if got != want || cof != Uint::from_digit(n / prod) {
                                    t.bad.push((
                                        "method=gcd_factors;what=wrong-grouping".into(),
                                        format!("gcd_factors(n={}, {} values) with the primes {:?} first dividing the values at positions {:?} returned factors {:?} cofactor {} (expected {:?}, {})", n, len, &ps[..k], &pos[..k], got, cof, want, n / prod),
                                    ));
                                    if t.bad.len() > 20 {
                                        return;
                                    }
                                }
                            }
                        }
                    }
                }
            };
            sweep(&mut t, 3, lmax3);
            sweep(&mut t, 2, lmax2);
            ("gcd_factors small scope".into(), t)
        }));
    }
    // ---- the 64-bit two-stage P-1 (PM1Base::factor): its budget fixes the stage-1 blocks and the
    // number pmax = min(65536, budget - 1000) of stage-2 primes it pays for. For every budget of
    // the list and EVERY stage-2 prime l among the first pmax, p = s*l + 1 (least even s dividing
    // the stage-1 exponent as the base builds it) is paired with a safe prime q whose q-1 = 2r has
    // r above every stage-2 prime: the call must return the split {p, q}.
    for budget in [1100usize, 1500, 2000, 5000, 20000, 40000, 66536, 100000] {
        jobs.push(Box::new(move || {
            let mut t = Tally::new();
            let pb = pollard_pm1::PM1Base::new();
            let (blocks, larges) = pollard_pm1::verif_access::pm1base_blocks(&pb);
            // stage-1 exponent: product of the blocks the budget pays for (all of them from 1024 on)
            let fmax = blocks.len().min(budget * blocks.len() / 1024);
            let mut e1 = W::ONE;
            for &b in &blocks[..fmax] {
                e1 = e1 * W::from_digit(b as u64);
            }
            let pmax = larges.len().min(budget - 1000);
            // q = 2r + 1 with r prime just above 2^30: ord_q(2) is r or 2r, beyond every bound
            let q = {
                let mut r = rm::next_prime_u64(1 << 30);
                while !rm::is_prime_u64(2 * r + 1) {
                    r = rm::next_prime_u64(r + 1);
                }
                2 * r + 1
            };
            let res: Vec<(u64, Option<(String, String)>, bool)> = larges[..pmax]
                .par_iter()
                .map(|&l| {
                    let l = l as u64;
                    let mut s = 2u64;
                    let mut p = 0;
                    while s <= 4000 {
                        if (e1 % W::from_digit(s)).is_zero() && rm::is_prime_u64(s * l + 1) {
                            p = s * l + 1;
                            break;
                        }
                        s += 2;
                    }
                    if p == 0 || (p as u128 * q as u128) >> 64 != 0 {
                        return (l, None, false);
                    }
                    let n = p * q;
                    let bad = match guarded(|| pb.factor(n, budget)) {
                        Err(e) => Some((format!("method=pm1base;what=panic;site={}", e.site), format!("PM1Base::factor({} = {}*{}, budget {}) panicked: {}", n, p, q, budget, e.short()))),
                        Ok(Some((a, b))) if (a, b) == (p, q) || (a, b) == (q, p) => None,
                        Ok(Some((a, b))) => Some(("method=pm1base;what=bad-split".into(), format!("PM1Base::factor({} = {}*{}, budget {}) returned ({}, {})", n, p, q, budget, a, b))),
                        Ok(None) => Some((
                            format!("method=pm1base;row={};what=missed;MISS={}", budget, l),
                            format!("PM1Base::factor({} = {}*{}, budget {}) returned None although p-1 = {} * {} with {} dividing the stage-1 exponent and {} among the first {} stage-2 primes", n, p, q, budget, s, l, s, l, pmax),
                        )),
                    };
                    (l, bad, true)
                })
                .collect();
            for (_l, bad, constructed) in res {
                t.evals += 1;
                if constructed {
                    t.promised += 1;
                    t.shapes += 1;
                } else {
                    t.not_constructible += 1;
                }
                if let Some(b) = bad {
                    t.bad.push(b);
                }
            }
            (format!("PM1Base::factor budget {} (every stage-2 prime it pays for)", budget), t)
        }));
    }
    // ---- return shape of the remaining routines on small composites
    {
        let primes = primes.clone();
        jobs.push(Box::new(move || {
        let mut t = Tally::new();
        let pb = pollard_pm1::PM1Base::new();
        let ps: Vec<u64> = primes.iter().cloned().filter(|&p| p > 1000 && p < 1400).collect();
        for (i, &p) in ps.iter().enumerate() {
            for &q in ps.iter().skip(i) {
                let n = p * q;
                let nw = W::from_digit(n);
                t.evals += 4;
                if let Some((a, b)) = pollard_rho::rho64(n, 1, 2048) {
                    check_shape(&mut t, "rho64", &nw, &[W::from_digit(a), W::from_digit(b)]);
                }
                if let Some((fs, r)) = pollard_rho::rho(&Uint::from_digit(n), Verbosity::Silent) {
                    let mut parts: Vec<W> = fs.iter().map(rm::w_from).collect();
                    parts.push(rm::w_from(&r));
                    check_shape(&mut t, "rho", &nw, &parts);
                }
                if let Some((fs, r)) = pollard_rho::rho_impl(&Uint::from_digit(n), 2, 1024, Verbosity::Silent) {
                    let mut parts: Vec<W> = fs.iter().map(rm::w_from).collect();
                    parts.push(rm::w_from(&r));
                    check_shape(&mut t, "rho_impl", &nw, &parts);
                }
                if let Some((a, b)) = pb.factor(n, 4000) {
                    check_shape(&mut t, "PM1Base::factor", &nw, &[W::from_digit(a), W::from_digit(b)]);
                }
                if let Some((a, b)) = yamaquasi::ecm128::ecm_semiprime(n) {
                    check_shape(&mut t, "ecm_semiprime", &nw, &[W::from_digit(a), W::from_digit(b)]);
                }
            }
        }
        ("return shapes (rho64, rho, rho_impl, PM1Base::factor, ecm_semiprime)".into(), t)
        }));
    }
    let tallies: Vec<(String, Tally)> = jobs.par_iter().map(|j| j()).collect();
    let mut per = vec![];
    let mut promised = 0;
    for (name, t) in tallies {
        rep.evaluations += t.evals;
        promised += t.promised;
        per.push(J::obj(vec![
            ("run", J::s(&name)),
            ("cases", J::from(t.evals)),
            ("promised", J::from(t.promised)),
            ("not_constructible", J::from(t.not_constructible)),
            ("return_shapes_checked", J::from(t.shapes)),
            ("misses_or_errors", J::from(t.bad.len())),
        ]));
        // one violation record per distinct key and run. Misses of a stage-2 prime are grouped per
        // (method, row) and identified by the first missed prime and their number, so that a
        // known band does not hide a wider or different one.
        let mut seen = std::collections::BTreeMap::new();
        let mut misses: std::collections::BTreeMap<String, Vec<(u64, String)>> = Default::default();
        for (k, w) in t.bad {
            if let Some(i) = k.find(";MISS=") {
                let l: u64 = k[i + 6..].parse().unwrap_or(0);
                misses.entry(k[..i].to_string()).or_default().push((l, w));
            } else {
                seen.entry(k).or_insert_with(Vec::new).push(w);
            }
        }
        for (k, mut v) in misses {
            v.sort();
            let key = format!("{};first_missed={};count={}", k, v[0].0, v.len());
            seen.insert(key, v.into_iter().map(|x| x.1).collect());
        }
        for (k, ws) in seen {
            let cnt = ws.len();
            rep.violation(k, format!("{} ({} such cases in {})", ws[0], cnt, name), J::obj(vec![("run", J::s(&name)), ("first", J::s(&ws[0])), ("last", J::s(&ws[cnt - 1]))]));
        }
    }
    rep.nontrivial = promised;
    rep.set("runs", J::A(per));
    rep.sample(J::obj(vec![("method", J::s("pm1_impl")), ("B1", J::from(120u64)), ("B2", J::s("1e5 (row d1=240, d2=512)")), ("l", J::s("every prime in (120, 1e5]")), ("p", J::s("least prime s*l+1 with s | stage-1 exponent"))]));
    rep.sample(J::obj(vec![("method", J::s("pp1")), ("B1", J::from(16u64)), ("B2", J::from(660u64)), ("seed", J::s("least seed in 3..20 with (seed^2-4 | p) = -1"))]));
    rep.sample(J::obj(vec![("method", J::s("ecm128 / ecm single curve")), ("curve", J::s("Suyama-11 seeds 2..9")), ("p", J::s("every prime in [2^10, 2^13) whose generator order is B1-smooth times at most one prime <= reported B2"))]));
    rep.rule = "P-1 and P+1: for each listed (B1,B2) pair (strategy-table pairs and table rows; B1 also tiny and d1/2) and for EVERY prime l in (B1, reported B2] (for the larger rows up to 4e6/18e6: every prime of the top 1% and of the band just above B1): the least even s dividing the stage-1 exponent (prime powers as the routines build them) with p = s*l+1 (P-1) / s*l-1 and a seed of non-residue discriminant (P+1) prime; n = p*q with q a prime whose q-1 and q+1 both have a prime factor above 10*B2; the run must return a split containing p. ECM (ecm128 and ecm single-curve routines, Suyama-11 seeds 2..9): for EVERY prime p in [2^10, 2^13/2^16) the order structure of the real curve's generator modulo p is computed with independent affine arithmetic (stage-1 exponent as the property defines it, then baby-step giant-step); every promised p is paired with two primes above max(2^20, 16 B2) whose post-stage-1 point has an order above 4x the reported B2 and the curve must split p*q for one of them. Every Some from these runs and from rho64/rho/rho_impl/PM1Base::factor/ecm_semiprime over all p*q with primes in (1000,1400): product n, parts > 1. PM1Base::factor (64-bit two-stage P-1): budgets {1100,1500,2000,5000,20000,40000,66536,100000} x EVERY stage-2 prime the budget pays for (up to all 65536), p = s*l+1 with s dividing the stage-1 blocks, q a safe prime above 2^31: the split {p,q} must be returned. distinct_nontrivial = promised cases.".into();
    rep.assumptions.push("promise evaluated with the harness' own arithmetic; 'reported B2' = the table row value the routine prints (min with the requested B2 for the P-1 prime walk)".into());
    rep
}
