//! C20: parameter tables satisfy their consumers' preconditions at every size.
//! The configuration space is finite and small: it is enumerated completely.

use bnum::cast::CastFrom;
use rayon::prelude::*;
use yamaquasi::arith_fft::{convolve_modn, MultiZmodP};
use yamaquasi::arith_montgomery::{MInt, ZmodN};
use yamaquasi::fbase::FBase;
use yamaquasi::{mpqs, params, pollard_pm1, qsieve, siqs};
use yamaquasi::{Int, Preferences, Uint, Verbosity};

use crate::common::*;
use crate::refmodel::{self as rm, W};

type Bad = (String, String);

fn n_of(bits: u32, r: u64) -> Uint {
    // an integer of exactly `bits` bits in residue class r mod 8 (bits >= 4)
    let base = W::ONE << (bits - 1);
    let n = base - (base % W::from_digit(8)) + W::from_digit(r);
    let n = if n.bits() < bits { n + W::from_digit(8) } else { n };
    rm::w_to(&n)
}

fn bitlen(x: u64) -> u32 {
    64 - x.leading_zeros()
}

fn phi(mut n: u64) -> u64 {
    let mut r = n;
    let mut p = 2;
    while p * p <= n {
        if n % p == 0 {
            while n % p == 0 {
                n /= p;
            }
            r -= r / p;
        }
        p += 1;
    }
    if n > 1 {
        r -= r / n;
    }
    r
}

/// Part 1: every bit length x residue class x double switch: transcribed requirements.
fn table_requirements(bits: u32) -> (u64, Vec<Bad>) {
    let mut bad: Vec<Bad> = vec![];
    let mut ev = 0;
    for r in [1u64, 3, 5, 7] {
        if bits < 4 {
            continue;
        }
        let n = n_of(bits, r);
        for dbl in [false, true] {
            ev += 4;
            // --- SIQS
            match guarded(|| siqs::verif_access::params(&n, dbl)) {
                Err(e) => bad.push((format!("variant=siqs;what=panic;site={}", e.site), format!("SIQS parameter functions panic at {} bits (n = {} mod 8, double={}): {}", bits, r, dbl, e.short()))),
                Ok((fb, nfacs, acount, mm, lpf, dlf)) => {
                    if fb == 0 || acount == 0 || lpf == 0 || dlf == 0 || nfacs == 0 {
                        bad.push(("variant=siqs;what=zero-parameter".into(), format!("SIQS at {} bits: fb={} nfacs={} acount={} lpf={} dlf={}", bits, fb, nfacs, acount, lpf, dlf)));
                    }
                    if mm == 0 || mm % 32768 != 0 {
                        bad.push(("variant=siqs;what=interval-alignment".into(), format!("SIQS at {} bits: interval size {} is not a positive multiple of 32768", bits, mm)));
                    }
                    // bounds fit their integer types: maxprime < 2^24
                    if (1u64 << 48).checked_mul(dlf).is_none() {
                        bad.push(("variant=siqs;what=double-large-overflow".into(), format!("SIQS at {} bits: maxprime^2 * {} can overflow u64", bits, dlf)));
                    }
                    // A * M^2 must fit the 255-bit assertion of the polynomial code. A is within a
                    // factor 2 of sqrt(2n)/M (or sqrt(n/2)/M): flag only a certain failure.
                    let nw = rm::w_from(&n);
                    let t: W = if r % 4 == 1 { nw >> 1u32 } else { nw << 1u32 };
                    // isqrt bits = ceil(bits/2)
                    let tbits = (t.bits() + 1) / 2;
                    let mlog = bitlen(mm as u64);
                    let abits_low = tbits.saturating_sub(bitlen(mm as u64 / 2)) .saturating_sub(1);
                    if abits_low + 2 * mlog >= 255 && mm > 0 {
                        bad.push((
                            "variant=siqs;what=A*M^2-exceeds-255-bits".into(),
                            format!("SIQS at {} bits (n = {} mod 8, double={}): A has at least {} bits and the interval {} (2^{}): A.bits + 2*mlog >= 255, the polynomial code asserts < 255", bits, r, dbl, abits_low, mm, mlog),
                        ));
                    }
                }
            }
            // --- MPQS
            if bits <= 448 {
                match guarded(|| (params::mpqs_fb_size(bits, dbl), mpqs::verif_access::params(&n))) {
                    Err(e) => bad.push((format!("variant=mpqs;what=panic;site={}", e.site), format!("MPQS parameter functions panic at {} bits: {}", bits, e.short()))),
                    Ok((fb, (mm, lpf, dlf))) => {
                        if fb == 0 || lpf == 0 || dlf == 0 || mm <= 0 || mm % 32768 != 0 {
                            bad.push(("variant=mpqs;what=bad-parameter".into(), format!("MPQS at {} bits: fb={} interval={} lpf={} dlf={}", bits, fb, mm, lpf, dlf)));
                        }
                        // D target must stay below 127 bits (asserted), D^2 M below 256
                        let dt = ((rm::w_from(&n).bits() + 1) / 2 + 1).saturating_sub(bitlen(mm as u64 / 2)) / 2 + 1;
                        if dt >= 127 {
                            bad.push(("variant=mpqs;what=D-too-large".into(), format!("MPQS at {} bits: D target has about {} bits", bits, dt)));
                        }
                    }
                }
            }
            // --- classical QS and class groups
            match guarded(|| (params::qs_fb_size(bits, dbl), qsieve::large_prime_factor(&n), params::clsgrp_fb_size(bits, dbl))) {
                Err(e) => bad.push((format!("variant=qs/classgroup;what=panic;site={}", e.site), format!("QS/classgroup parameter functions panic at {} bits: {}", bits, e.short()))),
                Ok((fb, lpf, cfb)) => {
                    if fb == 0 || lpf == 0 || cfb == 0 {
                        bad.push(("variant=qs/classgroup;what=zero-parameter".into(), format!("at {} bits: qs fb={} lpf={} classgroup fb={}", bits, fb, lpf, cfb)));
                    }
                    if fb > 500_000 || cfb > 500_000 {
                        bad.push(("variant=qs/classgroup;what=fb-too-large".into(), format!("at {} bits: qs fb={} classgroup fb={}", bits, fb, cfb)));
                    }
                }
            }
        }
    }
    (ev, bad)
}

/// Part 2: the consumers themselves on a representative input of that size.
fn run_consumers(bits: u32) -> (u64, Vec<Bad>) {
    let mut bad: Vec<Bad> = vec![];
    let mut ev = 0;
    let mut prefs = Preferences::default();
    prefs.verbosity = Verbosity::Silent;
    for r in [1u64, 7] {
        // no small factors: next prime in the class
        let mut nw = rm::w_from(&n_of(bits, r));
        while !rm::is_prime_w(&nw) {
            nw += W::from_digit(8);
        }
        // a semiprime-like composite is not needed: the consumers only see residues
        let n: Uint = rm::w_to(&nw);
        for dbl in [false, true] {
            ev += 1;
            let res = guarded(|| {
                let (fbsz, nfacs, acount, mm, lpf, _) = siqs::verif_access::params(&n, dbl);
                let fb = FBase::new(Int::cast_from(n), fbsz);
                if fb.len() % 8 != 0 || fb.len() < 8 {
                    return Err(format!("FBase::new({} bits, {}) has {} primes (not a positive multiple of 8)", bits, fbsz, fb.len()));
                }
                let nint = Int::cast_from(n);
                let factors = siqs::select_siqs_factors(&fb, &nint, nfacs as usize, mm as usize, Verbosity::Silent);
                let a_ints = siqs::select_a(&factors, acount, Verbosity::Silent);
                if a_ints.is_empty() {
                    return Err(format!("select_a returned no A value at {} bits", bits));
                }
                let maxlarge = (fb.bound() as u64 * lpf).min((1 << 32) - 1);
                let s = siqs::SieveSIQS::new(nint, &fb, maxlarge, 0, mm as usize, &prefs);
                let a = siqs::prepare_a(&factors, &a_ints[0], &fb, -(mm as i64) / 2);
                let mut pol = siqs::Poly::first(&s, &a);
                if a.len() > 1 {
                    pol.next(&s, &a);
                }
                let a = siqs::prepare_a(&factors, &a_ints[a_ints.len() - 1], &fb, -(mm as i64) / 2);
                let _ = siqs::Poly::first(&s, &a);
                Ok(())
            });
            match res {
                Err(e) => bad.push((format!("variant=siqs;what=consumer-panic;site={}", e.site), format!("SIQS set-up at {} bits (n = {} mod 8, double={}): {}", bits, r, dbl, e.short()))),
                Ok(Err(m)) => bad.push(("variant=siqs;what=consumer".into(), m)),
                Ok(Ok(())) => {}
            }
        }
        // MPQS: factor base, first polynomials
        if bits <= 448 {
            ev += 1;
            let res = guarded(|| {
                let fbsz = params::mpqs_fb_size(bits, bits > 224);
                let fb = FBase::new(Int::cast_from(n), fbsz);
                if fb.len() % 8 != 0 || fb.len() < 8 {
                    return Err(format!("MPQS FBase at {} bits has {} primes", bits, fb.len()));
                }
                let (mm, _, _) = mpqs::verif_access::params(&n);
                let a_target: Uint = if n.digits()[0] % 4 == 1 { yamaquasi::arith::isqrt(n >> 1) / Uint::from_digit(mm as u64 / 2) } else { yamaquasi::arith::isqrt(n << 1) / Uint::from_digit(mm as u64 / 2) };
                let d_target = std::cmp::max(Uint::from_digit(3), yamaquasi::arith::isqrt(a_target));
                let drs = mpqs::sieve_for_polys(&n, u128::cast_from(d_target), 400);
                for (d, rr) in drs.into_iter().take(3) {
                    let _ = mpqs::make_poly(&n, d, &rr);
                }
                Ok(())
            });
            match res {
                Err(e) => bad.push((format!("variant=mpqs;what=consumer-panic;site={}", e.site), format!("MPQS set-up at {} bits: {}", bits, e.short()))),
                Ok(Err(m)) => bad.push(("variant=mpqs;what=consumer".into(), m)),
                Ok(Ok(())) => {}
            }
        }
        if bits <= 400 {
            ev += 1;
            let res = guarded(|| {
                let fbsz = params::qs_fb_size(bits, bits > 200);
                let fb = FBase::new(Int::cast_from(n), fbsz);
                let qs = qsieve::SieveQS::new(n, &fb, fb.bound() as u64 * qsieve::large_prime_factor(&n), bits > 200);
                let (_, _, nblocks) = qsieve::verif_access::sieve_params(&qs);
                if nblocks == 0 || fb.len() % 8 != 0 {
                    return Err(format!("QS at {} bits: nblocks={} fb={}", bits, nblocks, fb.len()));
                }
                let _ = qs.init_sieve_for_test();
                Ok(())
            });
            match res {
                Err(e) => bad.push((format!("variant=qs;what=consumer-panic;site={}", e.site), format!("QS set-up at {} bits: {}", bits, e.short()))),
                Ok(Err(m)) => bad.push(("variant=qs;what=consumer".into(), m)),
                Ok(Ok(())) => {}
            }
        }
    }
    (ev, bad)
}

/// Part 3: stage-2 tables, every row and every B2 between rows (nearest-row selection).
fn stage2_tables(ctx: &Ctx) -> (u64, u64, Vec<Bad>) {
    let mut bad: Vec<Bad> = vec![];
    let mut ev = 0;
    // B2 grid: 64 geometric points per octave from 100 to 6e13, plus the strategy literals
    let mut grid: Vec<f64> = vec![];
    let mut x = 100.0f64;
    while x < 6e13 {
        grid.push(x);
        x *= 2f64.powf(1.0 / 64.0);
    }
    for lit in [660., 1080., 1920., 3e3, 7.7e3, 13.2e3, 20e3, 53e3, 81e3, 181e3, 554e3, 19e6, 156e6, 10e9, 136e9, 1500e9, 49e12, 40e3, 270e3, 8e6, 450e3, 300e6, 1.2e9, 8e9, 640e9, 1.4e12, 2.5e12, 5e12, 10e12, 126e3, 2.6e9, 32e9] {
        grid.push(lit);
    }
    // requests far above the last row (the nearest row is the last one)
    grid.extend([1e14, 1e15, 1e16, 1e18]);
    let mut rows_shared = std::collections::BTreeSet::new();
    let mut rows_pm1 = std::collections::BTreeSet::new();
    let zn = ZmodN::new(rm::w_to(&((W::ONE << 500) - W::from_digit(3))));
    for &b2 in &grid {
        ev += 2;
        match guarded(|| params::stage2_params(b2)) {
            Ok((rep, d1, d2)) => {
                rows_shared.insert((rep as u64, d1, d2));
            }
            Err(e) => bad.push((format!("table=params;what=selection-panic;site={}", e.site), format!("params::stage2_params({:e}) panicked: {}", b2, e.short()))),
        }
        match guarded(|| pollard_pm1::verif_access2::stage2_params(b2)) {
            Ok(((rep, d1, d2), _)) => {
                rows_pm1.insert((rep as u64, d1, d2));
            }
            Err(e) => bad.push((format!("table=pm1;what=selection-panic;site={}", e.site), format!("pollard_pm1 stage2_params({:e}) panicked: {}", b2, e.short()))),
        }
    }
    for &(rep, d1, d2) in &rows_shared {
        ev += 1;
        if d1 % 6 != 0 {
            bad.push(("table=params;what=d1-not-multiple-of-6".into(), format!("row B2={} d1={} d2={}", rep, d1, d2)));
        }
        if d1 == 0 || d2 < 2 {
            bad.push(("table=params;what=degenerate-row".into(), format!("row B2={} d1={} d2={}", rep, d1, d2)));
        }
        if d1 >= 4000 {
            // polynomial evaluation rows: phi(d1)/2 baby steps against blocks of d2
            let half_phi = phi(d1) / 2;
            if d2 < half_phi {
                bad.push(("table=params;what=d2-below-baby-steps".into(), format!("row B2={} d1={} d2={} phi/2={}", rep, d1, d2, half_phi)));
            }
        }
    }
    let budget_log = ctx.pick(15u32, 20);
    for &(rep, d1, d2) in &rows_pm1 {
        ev += 1;
        if d1 % 6 != 0 {
            bad.push(("table=pm1;what=d1-not-multiple-of-6".into(), format!("row B2={} d1={} d2={}", rep, d1, d2)));
        }
        if d2 & (d2.wrapping_sub(1)) != 0 || d2 == 0 {
            bad.push(("table=pm1;what=d2-not-power-of-two".into(), format!("row B2={} d1={} d2={}: pm1_stage2_polyeval asserts a power of two", rep, d1, d2)));
            continue;
        }
        if d2 / 2 < 28 {
            bad.push(("table=pm1;what=d2-below-fft-threshold".into(), format!("row B2={} d1={} d2={}", rep, d1, d2)));
        }
        if phi(d1) + 2 >= d2 {
            bad.push(("table=pm1;what=no-evaluation-left".into(), format!("row B2={} d1={} d2={}: phi(d1)={} leaves no giant step", rep, d1, d2, phi(d1))));
        }
        // the transform must fit the precomputed roots: build the NTT context for a 500-bit modulus
        let log = d2.trailing_zeros();
        if log <= budget_log {
            if let Err(e) = guarded(|| MultiZmodP::new(&zn, log)) {
                bad.push((format!("table=pm1;what=ntt-context-panic;site={}", e.site), format!("MultiZmodP::new(500-bit modulus, 2^{}) for row B2={}: {}", log, rep, e.short())));
            }
        }
    }
    let rows = (rows_shared.len() + rows_pm1.len()) as u64;
    // consumer run on the P-1 rows within budget: one run per row with the row's own B2
    let q = 1000000007u64;
    let n = Uint::from_digit(q) * Uint::from_digit(998244353);
    for &(rep, _d1, d2) in &rows_pm1 {
        if (rep as f64) > 80e3 && d2 <= ctx.pick(4096, 65536) {
            ev += 1;
            if let Err(e) = guarded(|| pollard_pm1::pm1_impl(&n, 1000, rep as f64, Verbosity::Silent)) {
                bad.push((format!("table=pm1;what=consumer-panic;site={}", e.site), format!("pm1_impl(B2={}) panicked: {}", rep, e.short())));
            }
        }
    }
    (ev, rows, bad)
}

/// Part 4: convolution dispatch: every modulus size x transform size; worst-case operands.
// ---- part 5: the class-group parameter tables, through their consumer

fn jacobi(mut a: u64, mut n: u64) -> i32 {
    // n odd
    a %= n;
    let mut r = 1;
    while a != 0 {
        while a % 2 == 0 {
            a /= 2;
            if n % 8 == 3 || n % 8 == 5 {
                r = -r;
            }
        }
        std::mem::swap(&mut a, &mut n);
        if a % 4 == 3 && n % 4 == 3 {
            r = -r;
        }
        a %= n;
    }
    if n == 1 {
        r
    } else {
        0
    }
}

/// The size the class-group code uses to index its tables (replicated only to steer the
/// enumeration towards every table row; the verdict never depends on it).
fn cls_adjusted_size(dabs: &W) -> u32 {
    let low = dabs.digits()[0];
    let mut bias: f64 = match low & 7 {
        7 => 1.0,
        3 => 0.0,
        _ => -0.5,
    };
    for p in yamaquasi::fbase::SMALL_PRIMES {
        if p == 2 {
            continue;
        }
        let r = (*dabs % W::from_digit(p)).digits()[0];
        let mut l = jacobi(r, p);
        if p % 4 == 3 {
            l = -l;
        }
        bias += (l as f64) * (p as f64).log2() / (p as f64);
    }
    std::cmp::max(1, dabs.bits() as i64 - (2.5 * bias).round() as i64) as u32
}

/// For every adjusted size s in the range: discriminants -p (both classes mod 8) and -4p whose
/// adjusted size is exactly s; classgroup() runs its whole parameter selection (factor base,
/// A factors, A values, interval, large prime bounds) and one polynomial family, then sees the
/// abort predicate. A panic is a table row whose consumer rejects it.
fn classgroup_tables(smax: u32) -> (u64, Vec<Bad>, Vec<u32>) {
    let targets: Vec<u32> = (20..=smax).collect();
    let res: Vec<(u64, Vec<Bad>, bool)> = targets
        .par_iter()
        .map(|&s| {
            let mut bad = vec![];
            let mut ev = 0;
            let mut found: Vec<(String, u64)> = vec![];
            // -p, p = 3 mod 4, for bit sizes around s
            'search: for k in [0i32, 1, -1, 2, -2, 3, -3, 4, -4, 5, -5, 6, -6, 7, -7, 8, -8] {
                let bits = s as i32 + k;
                if bits < 12 {
                    continue;
                }
                let mut p = W::ONE << (bits as u32 - 1);
                for _ in 0..400 {
                    p = rm::next_prime_w(&(p + W::ONE));
                    if p.bits() != bits as u32 {
                        break;
                    }
                    let m8 = p.digits()[0] & 7;
                    if m8 % 4 == 3 && cls_adjusted_size(&p) == s && !found.iter().any(|f| f.1 == m8) {
                        found.push((format!("-{}", p), m8));
                    }
                    if m8 % 4 == 1 {
                        let d = p * W::from_digit(4);
                        if cls_adjusted_size(&d) == s && !found.iter().any(|f| f.1 == 4) {
                            found.push((format!("-{}", d), 4));
                        }
                    }
                    if found.len() >= 3 {
                        break 'search;
                    }
                }
            }
            for (ds, _) in &found {
                ev += 1;
                let d: Int = ds.parse().expect("Int");
                let mut prefs = Preferences::default();
                prefs.verbosity = Verbosity::Silent;
                prefs.should_abort = Some(Box::new(|| true));
                for dbl in [None, Some(true)] {
                    prefs.use_double = dbl;
                    if let Err(e) = guarded(|| yamaquasi::classgroup::classgroup(&d, &prefs, None).is_some()) {
                        bad.push((
                            format!("variant=classgroup;what=consumer-panic;site={};adjusted_size={}", e.site, s),
                            format!("classgroup({}) (adjusted size {}, double={:?}) panics during parameter selection / first polynomial family: {}", ds, s, dbl, e.short()),
                        ));
                        break;
                    }
                }
            }
            (ev, bad, !found.is_empty())
        })
        .collect();
    let mut ev = 0;
    let mut bad = vec![];
    let mut missing = vec![];
    for (&s, (e, b, hit)) in targets.iter().zip(res) {
        ev += e;
        bad.extend(b.into_iter().take(1));
        if !hit {
            missing.push(s);
        }
    }
    (ev, bad, missing)
}

fn dispatch(bits: u32, kmax: u32) -> (u64, Vec<Bad>) {
    let mut bad: Vec<Bad> = vec![];
    let mut ev = 0;
    if bits < 2 {
        return (0, bad);
    }
    for shape in 0..2 {
        let n = if shape == 0 { (W::ONE << bits) - W::ONE } else { (W::ONE << (bits - 1)) + W::ONE };
        if !n.bit(0) || n < W::from_digit(3) || n.bits() != bits {
            continue;
        }
        let zn = ZmodN::new(rm::w_to(&n));
        let one = zn.one();
        let minus = zn.sub(&zn.zero(), &zn.one());
        for k in 1..=kmax {
            let size = 1usize << k;
            for (name, v) in [("1", one), ("n-1", minus)] {
                ev += 1;
                let a = vec![v; size];
                let mut res = vec![MInt::default(); size];
                match guarded(|| convolve_modn(&zn, size, &a, &a, &mut res, 0)) {
                    Err(e) => {
                        bad.push((format!("what=convolve-panic;site={}", e.site), format!("convolve_modn({} bits, size 2^{}): {}", bits, k, e.short())));
                        break;
                    }
                    Ok(()) => {
                        // every cyclic coefficient of (v + v X + ...)^2 is size * v^2 = size
                        let want = W::from_digit(size as u64) % n;
                        let wrong = (0..size).find(|&i| rm::w_from(&zn.to_int(res[i])) != want);
                        if let Some(i) = wrong {
                            bad.push((
                                "what=convolve-dispatch-overflow".into(),
                                format!("convolve_modn with a {}-bit modulus (shape {}), size 2^{}, all coefficients {}: coefficient {} is wrong (packing class too small for the accumulated sum)", bits, shape, k, name, i),
                            ));
                            break;
                        }
                    }
                }
            }
        }
    }
    (ev, bad)
}

/// The large-transform rows of the dispatch table: both sides of each bit-size edge at the
/// largest size of the row (and the next one), worst-case operands (all n-1).
fn dispatch_big(cells: &[(u32, u32)]) -> (u64, Vec<Bad>) {
    let res: Vec<(u64, Vec<Bad>)> = cells
        .par_iter()
        .map(|&(bits, k)| {
            let mut bad = vec![];
            let n = (W::ONE << bits) - W::ONE;
            let zn = ZmodN::new(rm::w_to(&n));
            let minus = zn.sub(&zn.zero(), &zn.one());
            let size = 1usize << k;
            let a = vec![minus; size];
            let mut res = vec![MInt::default(); size];
            match guarded(|| convolve_modn(&zn, size, &a, &a, &mut res, 0)) {
                Err(e) => bad.push((format!("what=convolve-panic;site={}", e.site), format!("convolve_modn({} bits, size 2^{}): {}", bits, k, e.short()))),
                Ok(()) => {
                    let want = W::from_digit(size as u64) % n;
                    // a spread of coefficients (every 257th and both ends)
                    let wrong = (0..size).step_by(257).chain([size - 1, size / 2]).find(|&i| rm::w_from(&zn.to_int(res[i])) != want);
                    if let Some(i) = wrong {
                        bad.push(("what=convolve-dispatch-overflow".into(), format!("convolve_modn with a {}-bit modulus, size 2^{}, all coefficients n-1: coefficient {} is wrong (packing class too small for the accumulated sum)", bits, k, i)));
                    }
                }
            }
            (1, bad)
        })
        .collect();
    let mut ev = 0;
    let mut bad = vec![];
    for (e, b) in res {
        ev += e;
        bad.extend(b);
    }
    (ev, bad)
}

pub fn run(ctx: &Ctx) -> Report {
    let mut rep = Report::new("exploration");
    let mut all_bad: Vec<Bad> = vec![];
    // part 1
    let r1: Vec<(u64, Vec<Bad>)> = (1..=512u32).into_par_iter().map(table_requirements).collect();
    let mut first_fail: std::collections::BTreeMap<String, (u32, String, u32)> = Default::default();
    for (bits, (e, bad)) in (1..=512u32).zip(r1) {
        rep.evaluations += e;
        for (k, w) in bad {
            let ent = first_fail.entry(k).or_insert((bits, w, 0));
            ent.2 += 1;
        }
    }
    for (k, (bits, w, cnt)) in first_fail {
        all_bad.push((format!("{};first_bits={}", k, bits), format!("{} ({} (bits, class, switch) combinations from {} bits on)", w, cnt, bits)));
    }
    // part 2
    let sizes: Vec<u32> = if ctx.quick() { (20..=128).collect() } else { (20..=256).chain((264..=330).step_by(8)).collect() };
    let r2: Vec<(u64, Vec<Bad>)> = sizes.par_iter().map(|&b| run_consumers(b)).collect();
    for (e, bad) in r2 {
        rep.evaluations += e;
        all_bad.extend(bad.into_iter().take(2));
    }
    // part 3
    let (e, rows, bad) = stage2_tables(ctx);
    rep.evaluations += e;
    all_bad.extend(bad);
    // part 4
    let kmax = ctx.pick(11u32, 14);
    let r4: Vec<(u64, Vec<Bad>)> = (2..=500u32).into_par_iter().map(|b| dispatch(b, kmax)).collect();
    for (e, bad) in r4 {
        rep.evaluations += e;
        all_bad.extend(bad.into_iter().take(1));
    }
    // part 4b: large-transform rows
    let cells: Vec<(u32, u32)> = if ctx.quick() {
        vec![(245, 17), (246, 17), (256, 17), (280, 16), (281, 16), (310, 14), (311, 14), (150, 13), (151, 13)]
    } else {
        vec![(245, 17), (246, 17), (256, 17), (257, 17), (245, 18), (246, 18), (256, 18), (280, 16), (281, 16), (310, 14), (311, 14), (150, 13), (151, 13), (500, 15), (500, 17), (500, 18), (246, 16), (281, 15), (311, 15)]
    };
    let (e, bad) = dispatch_big(&cells);
    rep.evaluations += e;
    all_bad.extend(bad);
    rep.set("dispatch_large_cells", J::s(format!("{:?}", cells)));
    // part 5
    let smax = ctx.pick(150u32, 215);
    let (e, bad, missing) = classgroup_tables(smax);
    rep.evaluations += e;
    all_bad.extend(bad);
    rep.set("classgroup_adjusted_sizes", J::s(format!("20..={smax}")));
    rep.set("classgroup_adjusted_sizes_not_reached", J::A(missing.iter().map(|&x| J::from(x as u64)).collect()));
    for (k, w) in all_bad.into_iter().take(60) {
        rep.violation(k, w.clone(), J::obj(vec![("case", J::s(w))]));
    }
    rep.nontrivial = rep.evaluations;
    rep.set("bit_lengths", J::from(512u64));
    rep.set("consumer_sizes", J::from(sizes.len()));
    rep.set("stage2_rows_reached", J::from(rows));
    rep.set("dispatch_cells", J::from(499u64 * kmax as u64));
    rep.sample(J::obj(vec![("bits", J::from(330u64)), ("class", J::from(5u64)), ("double", J::B(true)), ("checks", J::s("SIQS/MPQS/QS/classgroup parameter functions"))]));
    rep.sample(J::obj(vec![("table", J::s("pollard_pm1::STAGE2_PARAMS")), ("B2", J::s("every point of a 64-per-octave grid 100..6e13 and the strategy literals")), ("checks", J::s("d1 % 6, d2 power of two, d2/2 >= 28, phi(d1)+2 < d2, MultiZmodP::new"))]));
    rep.sample(J::obj(vec![("dispatch", J::s("convolve_modn")), ("bits", J::from(156u64)), ("size", J::s("2^1..2^11")), ("operands", J::s("all 1 / all n-1"))]));
    rep.rule = format!("(1) EVERY bit length 1..512 x residue class 1,3,5,7 mod 8 x double switch: SIQS, MPQS, QS and class-group parameter functions evaluated (a panic/underflow is a violation) and checked against the consumers' transcribed requirements: positive sizes, interval a positive multiple of 32768, large-prime bounds within u32/u64, A*M^2 within the 255-bit assertion (flagged only when certain), D below 127 bits; (2) the consumers themselves (FBase::new multiple of 8, select_siqs_factors, select_a, prepare_a, Poly::first/next, MPQS make_poly, SieveQS set-up) on a representative input of every size in {:?}..{:?} ({} sizes); (3) both stage-2 tables: the row selected for every B2 of a 64-points-per-octave grid from 100 to 6e13 plus every strategy literal: d1 % 6 == 0, P-1 rows: d2 a power of two, d2/2 >= FFT threshold, phi(d1)+2 < d2, NTT context constructible for a 500-bit modulus up to 2^{}, pm1_impl run on every row within budget; (4) convolve_modn dispatch: EVERY modulus size 2..500 bits (two shapes) x every transform size 2^1..2^{} with worst-case full-length operands (all 1 / all n-1): every cyclic coefficient must equal size mod n; the large-transform rows at both sides of each bit-size edge for sizes up to 2^17 (thorough 2^18); (5) the class-group tables through their consumer: for EVERY adjusted size 20..={} discriminants -p (p = 3 and 7 mod 8) and -4p with exactly that adjusted size run classgroup() (default and forced double large primes) through parameter selection and one polynomial family with the abort predicate set: a panic is a violation.", sizes.first(), sizes.last(), sizes.len(), budget_log_for_rule(ctx), kmax, smax);
    rep.assumptions.push("requirements transcribed from the consumers' assert!s and arithmetic; A*M^2 flagged only on a certain failure (lower bound on A)".into());
    rep
}

fn budget_log_for_rule(ctx: &Ctx) -> u32 {
    ctx.pick(15, 20)
}
