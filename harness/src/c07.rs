//! C07: Montgomery arithmetic (ZmodN, 64-bit mg_*, 128-bit M128) against
//! schoolbook arithmetic on bnum, bounded-exhaustive over word alphabets.

use rayon::prelude::*;
use yamaquasi::arith_montgomery::{self as am, MInt, ZmodN};
use yamaquasi::ecm128::verif_access as e128;
use yamaquasi::Uint;

use crate::common::*;
use crate::refmodel::{self as rm, W};

const W13: [u64; 13] = [
    0,
    1,
    2,
    3,
    1 << 31,
    (1 << 32) - 1,
    1 << 32,
    (1 << 32) + 1,
    (1 << 63) - 1,
    1 << 63,
    (1 << 63) + 1,
    u64::MAX - 1,
    u64::MAX,
];
const W4: [u64; 4] = [0, 1, 1 << 63, u64::MAX];
const W3: [u64; 3] = [0, 1, u64::MAX];

fn from_words(ws: &[u64]) -> W {
    let mut d = [0u64; 40];
    d[..ws.len()].copy_from_slice(ws);
    W::from_digits(d)
}

fn words_product(alpha: &[u64], k: usize) -> Vec<Vec<u64>> {
    let mut out = vec![vec![]];
    for _ in 0..k {
        let mut next = vec![];
        for v in &out {
            for &w in alpha {
                let mut v2 = v.clone();
                v2.push(w);
                next.push(v2);
            }
        }
        out = next;
    }
    out
}

/// All moduli of the enumeration (odd, top word non-zero, >= 3).
fn moduli(ctx: &Ctx) -> Vec<W> {
    let mut v: Vec<W> = vec![];
    let kfull = 3;
    for k in 1..=kfull {
        for ws in words_product(&W13, k) {
            if ws[0] & 1 == 1 && ws[k - 1] != 0 {
                v.push(from_words(&ws));
            }
        }
    }
    for k in (kfull + 1)..=8 {
        const W6: [u64; 6] = [0, 1, 1 << 32, 1 << 63, u64::MAX - 1, u64::MAX];
        let alpha: &[u64] = if !ctx.quick() && k <= 5 { &W6 } else { &W4 };
        for ws in words_product(alpha, k) {
            if ws[0] & 1 == 1 && ws[k - 1] != 0 {
                v.push(from_words(&ws));
            }
        }
    }
    // 2^(64k) - d, 2^(64k-1) + d, and the 500-bit limit
    for k in 1..=8u32 {
        for d in [1u64, 3, 5, 7, 9] {
            if 64 * k <= 500 {
                v.push((W::ONE << (64 * k)) - W::from_digit(d));
            }
            v.push((W::ONE << (64 * k - 1)) + W::from_digit(d));
        }
    }
    for d in [1u64, 3, 5, 7, 9, 11] {
        v.push((W::ONE << 500) - W::from_digit(d));
        v.push((W::ONE << 499) + W::from_digit(d));
    }
    v.retain(|n| *n >= W::from_digit(3) && n.bit(0) && n.bits() <= 500);
    v.sort();
    v.dedup();
    v
}

fn operands(n: &W, k: usize, rich: bool) -> Vec<W> {
    let one = W::ONE;
    let r = (W::ONE << (64 * k as u32)) % *n;
    let mut v = vec![
        W::ZERO,
        one,
        W::TWO,
        W::from_digit(3),
        *n - one,
        (*n - one) / W::TWO,
        (*n + one) / W::TWO,
        r,
        (r * r) % *n,
        *n / W::from_digit(3),
    ];
    if *n > W::TWO {
        v.push(*n - W::TWO);
    }
    for j in 0..k as u32 {
        v.push(W::ONE << (64 * j));
        if j > 0 {
            v.push((W::ONE << (64 * j)) - one);
        }
        v.push((W::ONE << (64 * j + 63)) % *n);
    }
    // all-ones below n, alternating patterns
    let bits = n.bits();
    v.push((W::ONE << (bits - 1)) - one);
    v.push((W::ONE << (bits - 1)));
    if rich {
        let alpha: &[u64] = if k <= 2 { &W13 } else if k <= 4 { &W4 } else { &W3 };
        if k <= 4 {
            for ws in words_product(alpha, k) {
                v.push(from_words(&ws));
            }
        } else {
            // for 5..8 words: every word position carrying each alphabet value once
            for i in 0..k {
                for &w in W4.iter() {
                    let mut ws = vec![u64::MAX; k];
                    ws[i] = w;
                    v.push(from_words(&ws));
                    let mut ws = vec![0u64; k];
                    ws[i] = w;
                    v.push(from_words(&ws));
                }
            }
        }
        let mask = from_words(&vec![0xAAAA_AAAA_AAAA_AAAA; k]);
        v.push(*n ^ mask);
    }
    let mut v: Vec<W> = v.into_iter().map(|x| x % *n).collect();
    v.sort();
    v.dedup();
    v
}

struct Tally {
    evals: u64,
    mul_pairs: u64,
    bad: Vec<(String, String, J)>,
}

fn check_modulus(n: &W, quick: bool) -> Tally {
    let mut t = Tally {
        evals: 0,
        mul_pairs: 0,
        bad: vec![],
    };
    let nu: Uint = rm::w_to(n);
    let k = ((n.bits() + 63) / 64) as usize;
    let zn = match guarded(|| ZmodN::new(nu)) {
        Ok(z) => z,
        Err(p) => {
            t.bad.push((format!("op=new;words={}", k), format!("ZmodN::new({}) panicked: {}", n, p.short()), J::obj(vec![("n", J::s(n))])));
            return t;
        }
    };
    let _ = quick;
    let ops = operands(n, k, true);
    let mops: Vec<MInt> = ops.iter().map(|x| zn.from_int(rm::w_to(x))).collect();
    let mut fail = |t: &mut Tally, op: &str, x: &W, y: &W, got: String, want: String| {
        if t.bad.len() < 8 {
            t.bad.push((
                format!("op={};words={}", op, k),
                format!("n={} x={} y={}: got {} expected {}", n, x, y, got, want),
                J::obj(vec![("n", J::s(n)), ("op", J::s(op)), ("x", J::s(x)), ("y", J::s(y))]),
            ));
        }
    };
    let r = guarded(|| {
        // unary
        for (x, mx) in ops.iter().zip(&mops) {
            t.evals += 3;
            let back = rm::w_from(&zn.to_int(*mx));
            if back != *x {
                fail(&mut t, "roundtrip", x, &W::ZERO, back.to_string(), x.to_string());
            }
            let g = rm::w_gcd(n, x);
            let gg = rm::w_from(&zn.gcd(mx));
            if gg != g {
                fail(&mut t, "gcd", x, &W::ZERO, gg.to_string(), g.to_string());
            }
            match zn.inv(*mx) {
                None => {
                    if g == W::ONE {
                        fail(&mut t, "inv", x, &W::ZERO, "None".into(), "an inverse".into());
                    }
                }
                Some(i) => {
                    let iv = rm::w_from(&zn.to_int(i));
                    if g != W::ONE || rm::w_mulmod(&iv, x, n) != W::ONE % *n || iv >= *n {
                        fail(&mut t, "inv", x, &W::ZERO, iv.to_string(), "x*inv = 1 (or None when gcd > 1)".into());
                    }
                }
            }
        }
        // binary
        for (x, mx) in ops.iter().zip(&mops) {
            for (y, my) in ops.iter().zip(&mops) {
                t.evals += 3;
                t.mul_pairs += 1;
                let p = rm::w_from(&zn.to_int(zn.mul(mx, my)));
                let want = rm::w_mulmod(x, y, n);
                if p != want {
                    fail(&mut t, "mul", x, y, p.to_string(), want.to_string());
                }
                let s = rm::w_from(&zn.to_int(zn.add(mx, my)));
                let want = (*x + *y) % *n;
                if s != want {
                    fail(&mut t, "add", x, y, s.to_string(), want.to_string());
                }
                let d = rm::w_from(&zn.to_int(zn.sub(mx, my)));
                let want = (*x + *n - *y) % *n;
                if d != want {
                    fail(&mut t, "sub", x, y, d.to_string(), want.to_string());
                }
            }
        }
        // redc on double-width patterns x < n*R
        let rr = W::ONE << (64 * k as u32);
        let nr = *n * rr;
        let mut xs: Vec<W> = vec![W::ZERO, W::ONE, nr - W::ONE, nr - W::TWO, nr / W::TWO, rr - W::ONE, rr, rr + W::ONE, *n, *n - W::ONE];
        for hi in ops.iter().take(12) {
            for lo in [W::ZERO, rr - W::ONE, rr / W::TWO, W::ONE] {
                xs.push(*hi * rr + lo);
            }
        }
        // patterns with all-ones words: the inner carry (`m[i+sz+1] += 1`, FIXME in redc)
        for i in 0..2 * k {
            let mut ws = vec![u64::MAX; 2 * k];
            ws[i] = 0;
            xs.push(from_words(&ws));
            let mut ws = vec![u64::MAX; 2 * k];
            ws[i] = 1 << 63;
            xs.push(from_words(&ws));
        }
        xs.push(from_words(&vec![u64::MAX; 2 * k]));
        for x in xs {
            if x >= nr {
                continue;
            }
            t.evals += 1;
            let mut arr = [0u64; 16];
            arr.copy_from_slice(&x.digits()[..16]);
            let m = rm::w_from(&Uint::from(zn.redc(&arr)));
            if m >= *n || rm::w_mulmod(&m, &(rr % *n), n) != x % *n {
                fail(&mut t, "redc", &x, &W::ZERO, m.to_string(), "x/R mod n".into());
            }
        }
        // redc_large for every length k..3k-1
        for len in k..(3 * k).min(24) {
            for pat in 0..4 {
                let ws: Vec<u64> = (0..len)
                    .map(|i| match pat {
                        0 => u64::MAX,
                        1 => (i as u64 + 1).wrapping_mul(0x9e3779b97f4a7c15),
                        2 => {
                            if i == len - 1 {
                                1
                            } else {
                                0
                            }
                        }
                        _ => {
                            if i % 2 == 0 {
                                u64::MAX
                            } else {
                                0
                            }
                        }
                    })
                    .collect();
                let x = from_words(&ws);
                t.evals += 1;
                let m = rm::w_from(&Uint::from(zn.redc_large(&ws)));
                if m >= *n || rm::w_mulmod(&m, &(rr % *n), n) != x % *n {
                    fail(&mut t, "redc_large", &x, &W::from_digit(len as u64), m.to_string(), "x/R mod n".into());
                }
            }
        }
    });
    if let Err(p) = r {
        t.bad.push((
            format!("op=panic;words={};site={}", k, p.site),
            format!("n={}: panic {}", n, p.short()),
            J::obj(vec![("n", J::s(n)), ("op", J::s("all"))]),
        ));
    }
    t
}

fn mg64(rep: &mut Report, ctx: &Ctx) {
    // exhaustive: all odd n < 2^9, all x, y < n
    let lim: u64 = ctx.pick(1 << 9, 1 << 11);
    let bad: Vec<String> = (3..lim)
        .into_par_iter()
        .filter(|n| n % 2 == 1)
        .flat_map(|n| {
            let mut bad = vec![];
            let ninv = am::mg_2adic_inv(n);
            if n.wrapping_mul(ninv) != u64::MAX {
                bad.push(format!("mg_2adic_inv({}) = {}", n, ninv));
            }
            let r = ((1u128 << 64) % n as u128) as u64;
            let r2 = ((r as u128 * r as u128) % n as u128) as u64;
            for x in 0..n {
                let mx = am::mg_mul(n, ninv, x, r2);
                if am::mg_redc(n, ninv, mx as u128) != x {
                    bad.push(format!("mg roundtrip n={} x={}", n, x));
                }
                // inverse
                match am::mg_inv(n, ninv, r2, mx) {
                    Some(i) => {
                        let iv = am::mg_redc(n, ninv, i as u128);
                        if (iv as u128 * x as u128) % n as u128 != 1 % n as u128 {
                            bad.push(format!("mg_inv n={} x={}", n, x));
                        }
                    }
                    None => {
                        if rm::w_gcd(&W::from_digit(n), &W::from_digit(x)) == W::ONE {
                            bad.push(format!("mg_inv None n={} x={}", n, x));
                        }
                    }
                }
                for y in 0..n {
                    let my = am::mg_mul(n, ninv, y, r2);
                    let p = am::mg_redc(n, ninv, am::mg_mul(n, ninv, mx, my) as u128);
                    if p != x * y % n {
                        bad.push(format!("mg_mul n={} x={} y={} got {}", n, x, y, p));
                    }
                }
            }
            bad.truncate(3);
            bad
        })
        .collect();
    let cnt: u64 = (3..lim).filter(|n| n % 2 == 1).map(|n| n * n + 2 * n).sum();
    rep.evaluations += cnt;
    for b in bad.iter().take(10) {
        rep.violation("op=mg64;range=exhaustive".into(), b.clone(), J::obj(vec![("op", J::s("mg64")), ("case", J::s(b))]));
    }
    // W13-derived 64-bit odd moduli with boundary operands, 64-bit and M128
    let mut ns: Vec<u64> = vec![];
    for &w in &W13 {
        for d in [0u64, 2, 4, 6] {
            ns.push(w.wrapping_add(d) | 1);
            ns.push(w.wrapping_sub(d) | 1);
        }
    }
    ns.retain(|&n| n >= 3);
    ns.sort();
    ns.dedup();
    for &n in &ns {
        let ninv = am::mg_2adic_inv(n);
        let r = ((1u128 << 64) % n as u128) as u64;
        let r2 = ((r as u128 * r as u128) % n as u128) as u64;
        let mut xs: Vec<u64> = vec![0, 1, 2, n - 1, n - 2, n / 2, n / 2 + 1, r, r2, n / 3];
        for &w in &W13 {
            xs.push(w % n);
        }
        xs.sort();
        xs.dedup();
        for &x in &xs {
            for &y in &xs {
                rep.evaluations += 1;
                let mx = am::mg_mul(n, ninv, x, r2);
                let my = am::mg_mul(n, ninv, y, r2);
                let p = am::mg_redc(n, ninv, am::mg_mul(n, ninv, mx, my) as u128);
                let want = ((x as u128 * y as u128) % n as u128) as u64;
                if p != want {
                    rep.violation(
                        "op=mg64;range=boundary".into(),
                        format!("mg_mul n={} x={} y={}: got {} expected {}", n, x, y, p, want),
                        J::obj(vec![("op", J::s("mg64")), ("n", J::s(n)), ("x", J::s(x)), ("y", J::s(y))]),
                    );
                }
            }
        }
    }
}

fn m128(rep: &mut Report, ctx: &Ctx) -> u64 {
    // 1- and 2-word moduli: M128 must compute the same function as ZmodN (same raw residues
    // for 2-word moduli where both use R = 2^128; same values otherwise).
    let mut ns: Vec<u128> = vec![];
    for ws in words_product(&W13, 2) {
        let n = ws[0] as u128 | (ws[1] as u128) << 64;
        if n & 1 == 1 && n >= 3 {
            ns.push(n);
        }
    }
    for d in [1u128, 3, 5, 159, 173] {
        ns.push(0u128.wrapping_sub(d));
        ns.push((1u128 << 127) + d);
        ns.push((1u128 << 127) - d);
        ns.push((1u128 << 64) + d);
    }
    ns.sort();
    ns.dedup();
    let quick = ctx.quick();
    let res: Vec<(u64, u64, Vec<(String, String, J)>)> = ns
        .par_iter()
        .map(|&n| {
            let mut bad = vec![];
            let mut evals = 0u64;
            let mut wraps = 0u64;
            let r = guarded(|| {
                let ninv = e128::m128_inv_2adic(n);
                let (r, r2) = e128::m128_r_r2(n, ninv);
                let nw = W::from_str_radix(&n.to_string(), 10).unwrap();
                let big = n >> 64 != 0;
                let rr: W = if big { W::ONE << 128 } else { W::ONE << 64 };
                if W::from_str_radix(&r.to_string(), 10).unwrap() != rr % nw {
                    bad.push(("op=m128;what=r".to_string(), format!("M128::r_r2({}) r = {}", n, r), J::obj(vec![("op", J::s("m128")), ("n", J::s(n))])));
                }
                if W::from_str_radix(&r2.to_string(), 10).unwrap() != (rr * rr) % nw {
                    bad.push(("op=m128;what=r2".to_string(), format!("M128::r_r2({}) r2 = {}", n, r2), J::obj(vec![("op", J::s("m128")), ("n", J::s(n))])));
                }
                let mut xs: Vec<u128> = vec![0, 1, 2, n - 1, n - 2, n / 2, n / 2 + 1, r, r2 % n, n / 3];
                let alpha: &[u64] = if quick { &W4 } else { &W13 };
                for ws in words_product(alpha, 2) {
                    xs.push((ws[0] as u128 | (ws[1] as u128) << 64) % n);
                }
                xs.sort();
                xs.dedup();
                let tow = |x: u128| W::from_str_radix(&x.to_string(), 10).unwrap();
                for &x in &xs {
                    for &y in &xs {
                        evals += 3;
                        // x, y are taken as raw residues (any residue is the Montgomery form of something)
                        let s = e128::m128_add(n, x, y);
                        if tow(s) != (tow(x) + tow(y)) % nw {
                            bad.push(("op=m128;what=add".to_string(), format!("M128::add n={} x={} y={} got {}", n, x, y, s), J::obj(vec![("op", J::s("m128")), ("n", J::s(n)), ("x", J::s(x)), ("y", J::s(y))])));
                        }
                        if x.checked_add(y).is_none() {
                            wraps += 1;
                        }
                        let d = e128::m128_sub(n, x, y);
                        if tow(d) != (tow(x) + nw - tow(y)) % nw {
                            bad.push(("op=m128;what=sub".to_string(), format!("M128::sub n={} x={} y={} got {}", n, x, y, d), J::obj(vec![("op", J::s("m128")), ("n", J::s(n)), ("x", J::s(x)), ("y", J::s(y))])));
                        }
                        // mul: result * R == x * y (mod n)
                        let p = e128::m128_mul(n, ninv, x, y);
                        if p >= n || (tow(p) * rr) % nw != (tow(x) * tow(y)) % nw {
                            bad.push(("op=m128;what=mul".to_string(), format!("M128::mul n={} x={} y={} got {}", n, x, y, p), J::obj(vec![("op", J::s("m128")), ("n", J::s(n)), ("x", J::s(x)), ("y", J::s(y))])));
                        }
                    }
                }
                // agreement with ZmodN on raw residues for 2-word moduli
                if big {
                    let zn = ZmodN::new(rm::w_to(&nw));
                    for &x in xs.iter().take(24) {
                        for &y in xs.iter().take(24) {
                            evals += 1;
                            let mut a = MInt::default();
                            a.0[0] = x as u64;
                            a.0[1] = (x >> 64) as u64;
                            let mut b = MInt::default();
                            b.0[0] = y as u64;
                            b.0[1] = (y >> 64) as u64;
                            let m = zn.mul(a, b);
                            let got = m.0[0] as u128 | (m.0[1] as u128) << 64;
                            if got != e128::m128_mul(n, ninv, x, y) {
                                bad.push(("op=m128;what=vs-zmodn".to_string(), format!("M128::mul and ZmodN::mul disagree n={} x={} y={}", n, x, y), J::obj(vec![("op", J::s("m128")), ("n", J::s(n)), ("x", J::s(x)), ("y", J::s(y))])));
                            }
                        }
                    }
                }
            });
            if let Err(p) = r {
                bad.push((format!("op=m128;what=panic;site={}", p.site), format!("n={}: panic {}", n, p.short()), J::obj(vec![("op", J::s("m128")), ("n", J::s(n))])));
            }
            bad.truncate(4);
            (evals, wraps, bad)
        })
        .collect();
    let mut wraps = 0;
    for (e, w, bad) in res {
        rep.evaluations += e;
        wraps += w;
        for (k, what, j) in bad {
            rep.violation(k, what, j);
        }
    }
    wraps
}

pub fn run(ctx: &Ctx) -> Report {
    let mut rep = Report::new("exploration");
    let ms = moduli(ctx);
    let quick = ctx.quick();
    let tallies: Vec<Tally> = ms.par_iter().map(|n| check_modulus(n, quick)).collect();
    let mut by_words = [0u64; 9];
    let mut pairs = 0u64;
    for (n, t) in ms.iter().zip(tallies) {
        rep.evaluations += t.evals;
        pairs += t.mul_pairs;
        by_words[((n.bits() + 63) / 64) as usize] += 1;
        for (k, what, j) in t.bad {
            rep.violation(k, what, j);
        }
    }
    mg64(&mut rep, ctx);
    let wraps = m128(&mut rep, ctx);
    rep.nontrivial = pairs;
    rep.set("moduli", J::from(ms.len()));
    rep.set("moduli_by_word_count", J::A(by_words[1..].iter().map(|&x| J::from(x)).collect()));
    rep.set("m128_additions_whose_plain_sum_exceeds_2_128", J::from(wraps));
    rep.sample(J::obj(vec![("n", J::s(ms[ms.len() - 1])), ("ops", J::s("roundtrip, gcd, inv on ~50 operands; mul/add/sub on all pairs; redc; redc_large"))]));
    rep.sample(J::obj(vec![("n", J::s(ms[ms.len() / 2])), ("words", J::from(((ms[ms.len() / 2].bits() + 63) / 64) as u64))]));
    rep.sample(J::obj(vec![("mg64", J::s("every odd n < 2^9 (thorough 2^10), every x, y < n"))]));
    rep.rule = "moduli: all odd k-word numbers over the 13-value word alphabet W13 for k<=3, over W4={0,1,2^63,2^64-1} for k=4..8 (thorough: the 6-value alphabet for k=4,5), plus 2^(64k)-d, 2^(64k-1)+d, 2^500-d, 2^499+d; per modulus an operand set (0,1,2,3,n-1,n-2,(n+-1)/2,R,R^2,n/3, word-boundary powers, all alphabet patterns for k<=4, single-word perturbations of all-ones/zero for k>=5): roundtrip, gcd, inv on each, mul/add/sub on ALL pairs, redc on double-width patterns incl. all-ones words and n*R-1, redc_large for every length k..3k-1; 64-bit mg_*: every odd n < 2^9/2^11 with every x,y < n, boundary n with boundary operands; M128 (through H1 accessors): every odd 1-/2-word modulus over W13 and 2^128-d, 2^127+-d with all operand pairs over W4/W13, against the reference and against ZmodN raw residues. distinct_nontrivial = number of (modulus, x, y) multiplication triples compared.".into();
    rep.assumptions.push("reference: bnum BUint<40> schoolbook * / %".into());
    rep
}

pub fn replay(_ctx: &Ctx, path: &std::path::Path) -> i32 {
    let s = std::fs::read_to_string(path).expect("replay file");
    let get = |k: &str| -> Option<String> {
        let pat = format!("\"{}\":\"", k);
        let i = s.rfind(&pat)? + pat.len();
        let j = s[i..].find('"')? + i;
        Some(s[i..j].to_string())
    };
    let Some(n) = get("n") else {
        println!("replay by re-running ./check C07");
        return 2;
    };
    if get("op").as_deref() == Some("m128") || get("op").as_deref() == Some("mg64") {
        println!("replay by re-running ./check C07 (op {})", get("op").unwrap());
        return 2;
    }
    let n = W::from_str_radix(&n, 10).unwrap();
    let t = check_modulus(&n, false);
    for (k, what, _) in &t.bad {
        println!("{} :: {}", k, what);
    }
    if t.bad.is_empty() {
        0
    } else {
        1
    }
}
