//! C17: prime enumeration is exact; smoothness exponent blocks cover every prime power.

use rayon::prelude::*;
use yamaquasi::ecm::SmoothBase;
use yamaquasi::fbase;
use yamaquasi::pollard_pm1::PM1Base;
use yamaquasi::Uint;

use crate::common::*;
use crate::refmodel::{self as rm};

/// Independent odd-only segmented sieve of [lo, lo+65536) given the primes below 65536.
fn ref_block(lo: u64, small: &[u64]) -> Vec<u32> {
    let mut comp = vec![false; 65536];
    for &p in small {
        if p * p >= lo + 65536 {
            break;
        }
        let mut m = ((lo + p - 1) / p) * p;
        if m < p * p {
            m = p * p;
        }
        while m < lo + 65536 {
            comp[(m - lo) as usize] = true;
            m += p;
        }
    }
    let mut out = vec![];
    for i in 0..65536u64 {
        let x = lo + i;
        if x >= 2 && !comp[i as usize] {
            out.push(x as u32);
        }
    }
    out
}

fn max_exp_below(p: u64, b1: u64) -> u32 {
    // max e with p^e < b1 (0 if p >= b1)
    let mut e = 0;
    let mut x = 1u128;
    while x * (p as u128) < b1 as u128 {
        x *= p as u128;
        e += 1;
    }
    e
}

/// v_p of the product of the blocks, by trial division of each block (u64 and 1024-bit).
fn valuations(blocks64: &[u64], blocks_lg: &[Uint], primes: &[u64]) -> Result<Vec<u32>, String> {
    let mut v = vec![0u32; primes.len()];
    for &b in blocks64 {
        if b == 0 {
            return Err("zero block".into());
        }
        let mut x = b;
        for (i, &p) in primes.iter().enumerate() {
            while x % p == 0 {
                x /= p;
                v[i] += 1;
            }
            if x == 1 {
                break;
            }
        }
        if x != 1 {
            return Err(format!("block {} has a factor {} outside the primes below B1 (wrapped product?)", b, x));
        }
    }
    for b in blocks_lg {
        if b.is_zero() {
            return Err("zero large block".into());
        }
        let mut x = rm::w_from(b);
        for (i, &p) in primes.iter().enumerate() {
            let pw = rm::w_u64(p);
            // quick skip
            while (x % pw).is_zero() {
                x = x / pw;
                v[i] += 1;
            }
            if x == rm::W::ONE {
                break;
            }
        }
        if x != rm::W::ONE {
            return Err(format!("large block has a cofactor {} outside the primes below B1 (wrapped product?)", x));
        }
    }
    Ok(v)
}

pub fn run(ctx: &Ctx) -> Report {
    let mut rep = Report::new("model_checking");
    let table = rm::primes_below(ctx.pick(1 << 21, 1 << 24));
    // ---- primes(k) for every k
    let kmax: u32 = ctx.pick(4096, 60_000);
    let mut ks: Vec<u32> = (0..=kmax).collect();
    for j in 0..=20u32 {
        for d in [-1i64, 0, 1] {
            let k = (1i64 << j) + d;
            if k >= 0 {
                ks.push(k as u32);
            }
        }
    }
    ks.push(100_000);
    if !ctx.quick() {
        ks.push(1_000_000);
    }
    ks.sort();
    ks.dedup();
    let tbl = &table;
    let bad: Vec<(u32, String)> = ks
        .par_iter()
        .filter_map(|&k| {
            let r = guarded(|| fbase::primes(k));
            match r {
                Err(p) => Some((k, format!("panic {}", p.short()))),
                Ok(v) => {
                    if (k as usize) > tbl.len() {
                        return None;
                    }
                    let ok = v.len() == k as usize && v.iter().zip(tbl.iter()).all(|(&a, &b)| a as u64 == b);
                    if ok {
                        None
                    } else {
                        Some((k, format!("returned {} values (last {:?}), expected the first {} primes", v.len(), v.last(), k)))
                    }
                }
            }
        })
        .collect();
    rep.evaluations += ks.len() as u64;
    rep.states += ks.len() as u64;
    for (k, what) in bad.iter().take(20) {
        rep.violation(
            format!("fn=primes;k={}", if *k <= 1 { k.to_string() } else { "other".into() }),
            format!("fbase::primes({}) {}", k, what),
            J::obj(vec![("fn", J::s("primes")), ("k", J::from(*k))]),
        );
    }
    // ---- PrimeSieve: all 65536 blocks + 2 extra calls
    {
        let small: Vec<u64> = rm::primes_below(65536);
        // walk the real state machine sequentially, collecting blocks in batches that are
        // compared in parallel with the independent segmented sieve
        let mut s = fbase::PrimeSieve::new();
        let first = s.next().to_vec();
        let exp0 = ref_block(0, &small);
        rep.states += 1;
        rep.transitions += 1;
        if first != exp0 {
            rep.violation(
                "fn=PrimeSieve;block=0".into(),
                format!("block 0 has {} entries, expected {} primes below 65536", first.len(), exp0.len()),
                J::obj(vec![("fn", J::s("PrimeSieve")), ("block", J::from(0u64))]),
            );
        }
        let mut total = first.len() as u64;
        let mut blk = 1u64;
        let batch = 1024u64;
        let mut nviol = 0;
        while blk < 65536 {
            let mut got: Vec<Vec<u32>> = vec![];
            let start = blk;
            while blk < 65536 && got.len() < batch as usize {
                got.push(s.next().to_vec());
                blk += 1;
            }
            rep.states += got.len() as u64;
            rep.transitions += got.len() as u64;
            let badb: Vec<u64> = got
                .par_iter()
                .enumerate()
                .filter_map(|(i, g)| {
                    let b = start + i as u64;
                    if *g != ref_block(b << 16, &small) {
                        Some(b)
                    } else {
                        None
                    }
                })
                .collect();
            total += got.iter().map(|g| g.len() as u64).sum::<u64>();
            for b in badb {
                nviol += 1;
                if nviol <= 10 {
                    rep.violation(
                        "fn=PrimeSieve;what=block-mismatch".into(),
                        format!("PrimeSieve block {} ([{}, {})) differs from the reference segmented sieve", b, b << 16, (b + 1) << 16),
                        J::obj(vec![("fn", J::s("PrimeSieve")), ("block", J::from(b))]),
                    );
                }
            }
        }
        for extra in 0..2 {
            let e = s.next();
            rep.transitions += 1;
            if !e.is_empty() {
                rep.violation(
                    "fn=PrimeSieve;what=past-end".into(),
                    format!("call {} after the last block returned {} entries", extra + 1, e.len()),
                    J::obj(vec![("fn", J::s("PrimeSieve")), ("block", J::from(65536u64 + extra))]),
                );
            }
        }
        rep.set("primesieve_blocks", J::from(65536u64));
        rep.set("primesieve_primes_total", J::from(total));
        if total != 203280221 && nviol == 0 {
            rep.violation(
                "fn=PrimeSieve;what=count".into(),
                format!("{} primes enumerated below 2^32, expected 203280221", total),
                J::obj(vec![("fn", J::s("PrimeSieve")), ("block", J::from(0u64))]),
            );
        }
    }
    // ---- SmoothBase::new(b1, large): every prime power below b1 divides the product
    let mut b1s: Vec<usize> = (4..=ctx.pick(24_000usize, 70_000)).collect();
    for d in 0..=160usize {
        b1s.push(65536 - 80 + d);
    }
    for b in [
        200usize, 600, 2000, 2500, 10_000, 25_000, 100_000, 200_000, 300_000, 1_000_000, 1_500_000, 3_000_000,
    ] {
        b1s.push(b);
    }
    if ctx.quick() {
        b1s.retain(|&b| b <= 300_000);
    }
    b1s.sort();
    b1s.dedup();
    let cases: Vec<(usize, bool)> = b1s.iter().flat_map(|&b| [(b, false), (b, true)]).collect();
    let results: Vec<Option<String>> = cases
        .par_iter()
        .map(|&(b1, large)| {
            let r = guarded(|| {
                let sb = SmoothBase::new(b1, large);
                yamaquasi::ecm::verif_access::smoothbase_blocks(&sb)
            });
            let (f64s, lgs) = match r {
                Err(p) => return Some(format!("panic {}", p.short())),
                Ok(x) => x,
            };
            let np = tbl.partition_point(|&p| p < b1 as u64);
            let primes = &tbl[..np];
            match valuations(&f64s, &lgs, primes) {
                Err(e) => Some(e),
                Ok(v) => {
                    for (i, &p) in primes.iter().enumerate() {
                        let need = max_exp_below(p, b1 as u64);
                        if v[i] < need {
                            return Some(format!("prime {} has exponent {} in the blocks, needs {} (p^e < B1)", p, v[i], need));
                        }
                    }
                    None
                }
            }
        })
        .collect();
    rep.evaluations += cases.len() as u64;
    rep.states += cases.len() as u64;
    let mut thresholds_crossed = 0u64;
    for (c, r) in cases.iter().zip(results.iter()) {
        if c.0 == 4096 || c.0 == 65536 {
            thresholds_crossed += 1;
        }
        if let Some(e) = r {
            rep.violation(
                format!("fn=SmoothBase;large={};what={}", c.1, if e.starts_with("panic") { "panic" } else { "exponent" }),
                format!("SmoothBase::new({}, {}): {}", c.0, c.1, e),
                J::obj(vec![("fn", J::s("SmoothBase")), ("b1", J::from(c.0)), ("large", J::B(c.1))]),
            );
        }
    }
    rep.set("smoothbase_cases", J::from(cases.len()));
    rep.set("threshold_values_included", J::from(thresholds_crossed));
    // ---- PM1Base: blocks cover prime powers below 1024 for p < 500, larges are the next primes
    {
        let b = PM1Base::new();
        let (f, l) = yamaquasi::pollard_pm1::verif_access::pm1base_blocks(&b);
        rep.evaluations += 1;
        let f64s: Vec<u64> = f.iter().map(|&x| x as u64).collect();
        let np = tbl.partition_point(|&p| p < 500);
        match valuations(&f64s, &[], &tbl[..np]) {
            Err(e) => rep.violation("fn=PM1Base;what=blocks".into(), format!("PM1Base blocks: {}", e), J::obj(vec![("fn", J::s("PM1Base"))])),
            Ok(v) => {
                for (i, &p) in tbl[..np].iter().enumerate() {
                    let need = max_exp_below(p, 1024);
                    if v[i] < need {
                        rep.violation(
                            "fn=PM1Base;what=exponent".into(),
                            format!("PM1Base: prime {} has exponent {} needs {}", p, v[i], need),
                            J::obj(vec![("fn", J::s("PM1Base"))]),
                        );
                    }
                }
            }
        }
        let expect: Vec<u32> = tbl.iter().filter(|&&p| p >= 500).take(l.len()).map(|&p| p as u32).collect();
        if l != expect {
            rep.violation(
                "fn=PM1Base;what=larges".into(),
                "PM1Base large primes are not the consecutive primes from 500".into(),
                J::obj(vec![("fn", J::s("PM1Base"))]),
            );
        }
    }
    rep.nontrivial = rep.states;
    rep.traces = rep.states;
    rep.sample(J::obj(vec![("fn", J::s("primes")), ("k", J::from(0u64)), ("expected", J::s("[]"))]));
    rep.sample(J::obj(vec![("fn", J::s("primes")), ("k", J::from(6542u64)), ("expected_last", J::from(65521u64))]));
    rep.sample(J::obj(vec![("fn", J::s("PrimeSieve::next")), ("block", J::from(65535u64)), ("range", J::s("[4294901760, 4294967296)"))]));
    rep.sample(J::obj(vec![("fn", J::s("SmoothBase::new")), ("b1", J::from(65536u64)), ("large", J::B(true))]));
    rep.rule = format!("primes(k) for every k in [0,{}] plus 2^j-1,2^j,2^j+1 (j<=20), 10^5 (thorough: 10^6) against an Eratosthenes table; the PrimeSieve state machine walked through ALL 65536 blocks (+2 calls past the end), each block compared with an independent segmented sieve (states = blocks, transitions = next() calls); SmoothBase::new(b1, large) for every b1 in [4,{}] plus [65456,65616] and the strategy-table B1 values x large in {{false,true}}: every block is factored back (a wrapped u64/1024-bit product shows up as a foreign cofactor) and v_p(product) >= max{{e: p^e < b1}} for every prime p < b1; PM1Base likewise.", kmax, ctx.pick(24000, 70000));
    rep.assumptions.push("reference prime table by plain Eratosthenes".into());
    rep
}

pub fn replay(_ctx: &Ctx, path: &std::path::Path) -> i32 {
    let s = std::fs::read_to_string(path).expect("replay file");
    let num = |k: &str| -> Option<u64> {
        let pat = format!("\"{}\":", k);
        let i = s.rfind(&pat)? + pat.len();
        s[i..].chars().take_while(|c| c.is_ascii_digit()).collect::<String>().parse().ok()
    };
    if s.contains("\"fn\":\"primes\"") {
        let k = num("k").unwrap() as u32;
        let table = rm::primes_below(1 << 24);
        let v = fbase::primes(k);
        println!("primes({}) returned {} values", k, v.len());
        let ok = v.len() == k as usize && v.iter().zip(table.iter()).all(|(&a, &b)| a as u64 == b);
        return if ok { 0 } else { 1 };
    }
    if s.contains("\"fn\":\"SmoothBase\"") {
        let b1 = num("b1").unwrap() as usize;
        let large = s.contains("\"large\":true");
        let table = rm::primes_below(b1 as u64 + 10);
        let sb = SmoothBase::new(b1, large);
        let (f, l) = yamaquasi::ecm::verif_access::smoothbase_blocks(&sb);
        let np = table.partition_point(|&p| p < b1 as u64);
        return match valuations(&f, &l, &table[..np]) {
            Err(e) => {
                println!("{}", e);
                1
            }
            Ok(v) => {
                let mut bad = 0;
                for (i, &p) in table[..np].iter().enumerate() {
                    if v[i] < max_exp_below(p, b1 as u64) {
                        println!("prime {} exponent {} too small", p, v[i]);
                        bad = 1;
                    }
                }
                bad
            }
        };
    }
    println!("replay by re-running the check: ./check C17");
    2
}
