//! C14: GF(2) kernel solvers return only genuine, non-zero dependencies.

use bitvec_simd::BitVec;
use rayon::prelude::*;
use yamaquasi::matrix::gf2::{kernel_gauss, kernel_lanczos, SparseMat};
use yamaquasi::Verbosity;

use crate::common::*;

/// A matrix as a list of columns, each a sorted list of row indices holding a 1.
#[derive(Clone)]
struct Mat {
    rows: usize,
    cols: Vec<Vec<usize>>,
}

fn rank_of(m: &Mat) -> usize {
    // own elimination on u64-packed columns
    let words = (m.rows + 63) / 64;
    let mut cols: Vec<Vec<u64>> = m
        .cols
        .iter()
        .map(|c| {
            let mut v = vec![0u64; words.max(1)];
            for &i in c {
                v[i / 64] ^= 1 << (i % 64);
            }
            v
        })
        .collect();
    let mut rank = 0;
    let mut used = vec![false; cols.len()];
    for r in 0..m.rows {
        let (w, b) = (r / 64, r % 64);
        // find a pivot column with bit r set, not used yet
        let Some(p) = (0..cols.len()).find(|&j| !used[j] && cols[j][w] >> b & 1 == 1) else { continue };
        used[p] = true;
        rank += 1;
        let pc = cols[p].clone();
        for j in 0..cols.len() {
            if j != p && cols[j][w] >> b & 1 == 1 {
                for k in 0..pc.len() {
                    cols[j][k] ^= pc[k];
                }
            }
        }
    }
    rank
}

/// Is v (bit j = coefficient of column j) non-zero and in the kernel?
fn in_kernel(m: &Mat, v: &[bool]) -> (bool, bool) {
    let nonzero = v.iter().any(|&b| b);
    let mut acc = vec![false; m.rows];
    for (j, &b) in v.iter().enumerate() {
        if b {
            for &i in &m.cols[j] {
                acc[i] = !acc[i];
            }
        }
    }
    (nonzero, acc.iter().all(|&b| !b))
}

fn rank_of_vectors(vs: &[Vec<bool>]) -> usize {
    if vs.is_empty() {
        return 0;
    }
    let m = Mat {
        rows: vs[0].len(),
        cols: vs.iter().map(|v| (0..v.len()).filter(|&i| v[i]).collect()).collect(),
    };
    rank_of(&m)
}

fn bv_to_bools(v: &BitVec, n: usize) -> Vec<bool> {
    let mut out = vec![false; n];
    for i in v.clone().into_usizes() {
        if i < n {
            out[i] = true;
        }
    }
    out
}

fn check_gauss(m: &Mat, tag: &str) -> Option<(String, String)> {
    let dense: Vec<BitVec> = m
        .cols
        .iter()
        .map(|c| {
            let mut v = BitVec::zeros(m.rows);
            for &i in c {
                v.set(i, true);
            }
            v
        })
        .collect();
    let ncols = m.cols.len();
    match guarded(|| kernel_gauss(dense)) {
        Err(p) => Some((format!("fn=kernel_gauss;what=panic;site={}", p.site), format!("{}: panic {}", tag, p.short()))),
        Ok(ker) => {
            let vs: Vec<Vec<bool>> = ker.iter().map(|v| bv_to_bools(v, ncols)).collect();
            for (k, v) in vs.iter().enumerate() {
                let (nz, ink) = in_kernel(m, v);
                if !nz {
                    return Some(("fn=kernel_gauss;what=zero-vector".into(), format!("{}: returned vector {} is zero", tag, k)));
                }
                if !ink {
                    return Some(("fn=kernel_gauss;what=not-in-kernel".into(), format!("{}: returned vector {} is not annihilated by the matrix", tag, k)));
                }
            }
            let want = ncols - rank_of(m);
            if vs.len() != want {
                return Some(("fn=kernel_gauss;what=dimension".into(), format!("{}: {} vectors returned, columns - rank = {}", tag, vs.len(), want)));
            }
            if rank_of_vectors(&vs) != vs.len() {
                return Some(("fn=kernel_gauss;what=dependent-family".into(), format!("{}: the returned family is linearly dependent", tag)));
            }
            None
        }
    }
}

fn check_lanczos(m: &Mat, seed: u64, tag: &str) -> (usize, Option<(String, String)>) {
    let sm = SparseMat {
        k: m.rows,
        cols: m.cols.clone(),
    };
    yamaquasi::verif::set_lanczos_seed(Some(seed));
    let r = guarded(|| kernel_lanczos(&sm, Verbosity::Silent));
    yamaquasi::verif::set_lanczos_seed(None);
    match r {
        Err(p) => (0, Some((format!("fn=kernel_lanczos;what=panic;site={}", p.site), format!("{} seed {}: panic {}", tag, seed, p.short())))),
        Ok(ker) => {
            let n = m.cols.len();
            for (k, v) in ker.iter().enumerate() {
                let vb = bv_to_bools(v, n);
                let (nz, ink) = in_kernel(m, &vb);
                if !nz {
                    return (ker.len(), Some(("fn=kernel_lanczos;what=zero-vector".into(), format!("{} seed {}: returned vector {} of {} is zero", tag, seed, k, ker.len()))));
                }
                if !ink {
                    return (ker.len(), Some(("fn=kernel_lanczos;what=not-in-kernel".into(), format!("{} seed {}: returned vector {} is not annihilated by the matrix", tag, seed, k))));
                }
            }
            (ker.len(), None)
        }
    }
}

/// Deterministic corpus generator (a fixed LCG per (shape, profile)): every generated matrix is checked.
fn gen(c: usize, r: usize, profile: &str, salt: u64) -> Mat {
    let mut state = mix64(salt ^ ((c as u64) << 32) ^ r as u64 ^ (profile.len() as u64) << 48);
    let mut next = || {
        state = state.wrapping_mul(6364136223846793005).wrapping_add(1442695040888963407);
        state >> 33
    };
    let mut cols: Vec<Vec<usize>> = vec![];
    for j in 0..c {
        let mut col: Vec<usize> = vec![];
        if r > 0 {
            match profile {
                "uniform" => {
                    for i in 0..r {
                        if next() % 2 == 1 {
                            col.push(i);
                        }
                    }
                }
                "sieve" | "duplicates" | "zero-columns" | "band" => {
                    // heavy low rows (first 64), sparse tail
                    for i in 0..r.min(64) {
                        if next() % (2 + i as u64 / 4) == 0 {
                            col.push(i);
                        }
                    }
                    if r > 64 {
                        for _ in 0..6 {
                            col.push(64 + (next() as usize) % (r - 64));
                        }
                    }
                    if profile == "band" {
                        // band-triangular: column j touches rows near j only (tiny kernels)
                        col = vec![j % r, (j + 1) % r, (j * 7 + 3) % r];
                    }
                }
                _ => unreachable!(),
            }
        }
        col.sort();
        col.dedup();
        cols.push(col);
    }
    if profile == "duplicates" && c >= 4 {
        for j in (0..c / 4).map(|x| x * 4 + 1) {
            cols[j] = cols[j - 1].clone();
        }
    }
    if profile == "zero-columns" && c >= 3 {
        for j in (0..c / 3).map(|x| x * 3) {
            cols[j].clear();
        }
    }
    Mat { rows: r, cols }
}

pub fn run(ctx: &Ctx) -> Report {
    let mut rep = Report::new("exploration");
    // ---- small-scope exhaustive for Gauss: every 0/1 matrix with r rows, c columns
    let mut shapes: Vec<(usize, usize)> = vec![];
    for r in 1..=4 {
        for c in 1..=5 {
            shapes.push((r, c));
        }
    }
    for r in 1..=3 {
        for c in 6..=7 {
            shapes.push((r, c));
        }
    }
    if !ctx.quick() {
        shapes.push((4, 6));
        shapes.push((5, 5));
    }
    let mut exhaustive = 0u64;
    for &(r, c) in &shapes {
        let total: u64 = 1 << (r * c);
        exhaustive += total;
        let bad: Vec<(String, String)> = (0..total)
            .into_par_iter()
            .filter_map(|bits| {
                let cols: Vec<Vec<usize>> = (0..c).map(|j| (0..r).filter(|&i| bits >> (j * r + i) & 1 == 1).collect()).collect();
                let m = Mat { rows: r, cols };
                check_gauss(&m, &format!("{}x{} matrix #{:#x}", r, c, bits))
            })
            .collect();
        for (k, w) in bad.into_iter().take(5) {
            rep.violation(k, w.clone(), J::obj(vec![("case", J::s(w))]));
        }
    }
    rep.evaluations += exhaustive;
    rep.set("gauss_small_scope_matrices", J::from(exhaustive));
    // ---- structured family
    let cs: Vec<usize> = if ctx.quick() {
        vec![1, 2, 3, 63, 64, 65, 127, 128, 129, 500, 2000]
    } else {
        vec![1, 2, 3, 63, 64, 65, 127, 128, 129, 500, 2000, 5000]
    };
    let coranks = [0usize, 1, 2, 47, 48, 49, 64, 65, 100];
    let profiles = ["uniform", "sieve", "duplicates", "zero-columns", "band"];
    let mut cases: Vec<(usize, usize, &str)> = vec![];
    for &c in &cs {
        for &k in &coranks {
            if k > c {
                continue;
            }
            let r = c - k;
            for p in profiles {
                cases.push((c, r, p));
            }
        }
        // more rows than columns too
        cases.push((c, c + 3, "uniform"));
        cases.push((c, c + 70, "sieve"));
    }
    let gbad: Vec<Option<(String, String)>> = cases
        .par_iter()
        .map(|&(c, r, p)| {
            if c > 2000 && p == "uniform" {
                return None; // dense uniform 5000x5000 is only run through Lanczos
            }
            let m = gen(c, r, p, 1);
            check_gauss(&m, &format!("gauss {} columns x {} rows profile {}", c, r, p))
        })
        .collect();
    rep.evaluations += cases.len() as u64;
    for b in gbad.into_iter().flatten().take(8) {
        rep.violation(b.0, b.1.clone(), J::obj(vec![("case", J::s(b.1))]));
    }
    // ---- Lanczos over its own random choices: all seeds on every shape with c >= 200,
    // plus tiny-kernel matrices (dimension 0..3) where null columns of the result are likely
    let nseeds: u64 = ctx.pick(16, 256);
    let mut lcases: Vec<(usize, usize, &str, u64)> = vec![];
    for &(c, r, p) in &cases {
        if c >= 200 && r >= 64 {
            let ns = if c >= 2000 { nseeds.min(ctx.pick(4, 32)) } else { nseeds };
            for s in 0..ns {
                lcases.push((c, r, p, s));
            }
        }
    }
    for c in [200usize, 333, 500] {
        for k in [0usize, 1, 2, 3] {
            for s in 0..nseeds {
                lcases.push((c, c - k, "band", 1000 + s));
                lcases.push((c, c - k, "sieve", 2000 + s));
            }
        }
    }
    let lres: Vec<(usize, Option<(String, String)>)> = lcases
        .par_iter()
        .map(|&(c, r, p, s)| {
            let m = gen(c, r, p, 1);
            check_lanczos(&m, s, &format!("lanczos {} columns x {} rows profile {}", c, r, p))
        })
        .collect();
    rep.evaluations += lcases.len() as u64;
    let mut vectors = 0u64;
    let mut empties = 0u64;
    for (n, b) in lres {
        vectors += n as u64;
        if n == 0 {
            empties += 1;
        }
        if let Some(b) = b {
            rep.violation(b.0, b.1.clone(), J::obj(vec![("case", J::s(b.1))]));
        }
    }
    rep.nontrivial = exhaustive + vectors;
    rep.set("structured_cases", J::from(cases.len()));
    rep.set("lanczos_runs", J::from(lcases.len()));
    rep.set("lanczos_vectors_verified", J::from(vectors));
    rep.set("lanczos_runs_returning_nothing", J::from(empties));
    rep.set("lanczos_seeds_per_shape", J::from(nseeds));
    rep.sample(J::obj(vec![("fn", J::s("kernel_gauss")), ("shape", J::s("every 4x5 matrix over GF(2) (2^20)"))]));
    rep.sample(J::obj(vec![("fn", J::s("kernel_gauss")), ("columns", J::from(2000u64)), ("rows", J::from(1936u64)), ("profile", J::s("sieve"))]));
    rep.sample(J::obj(vec![("fn", J::s("kernel_lanczos")), ("columns", J::from(500u64)), ("rows", J::from(499u64)), ("profile", J::s("band")), ("seed", J::from(1003u64))]));
    rep.rule = format!("kernel_gauss: EVERY 0/1 matrix of shapes {:?} (oracle: each returned vector non-zero and annihilated, family independent by own elimination, size = columns - rank); structured family: columns in {:?} x coranks {{0,1,2,47,48,49,64,65,100}} (rows = columns - corank; also rows > columns) x profiles {{uniform, sieve (dense first 64 rows, sparse tail), duplicated columns, zero columns, band}} from a fixed LCG, every generated matrix checked; kernel_lanczos on all of those with >= 200 columns and >= 64 rows and on tiny-kernel (dimension 0..3) band/sieve matrices, for ALL seeds 0..{} of its random block through the seam (oracle: every returned vector non-zero and in the kernel). distinct_nontrivial = exhaustive matrices + Lanczos vectors verified.", shapes, cs, nseeds);
    rep.assumptions.push("own GF(2) elimination for ranks; Lanczos randomness owned through the cfg-gated seed seam (successive blocks use successive seeds)".into());
    rep
}
