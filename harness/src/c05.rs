//! C05 (a): exhaustive enumeration of abort instants, single-threaded, on the
//! real factor() / classgroup(): for every k in [0, N] the abort predicate
//! answers true from its k-th call on (N = number of polls of the unaborted run).

use std::cell::Cell;
use std::str::FromStr;
use std::sync::atomic::{AtomicU64, Ordering};
use std::sync::Arc;

use rayon::prelude::*;
use yamaquasi::{Algo, Int, Preferences, Uint, Verbosity};

use crate::c01::check_product;
use crate::common::*;
use crate::sweep::{algo_name, Case, PrefSpec};

thread_local! {
    static RELS: Cell<u64> = Cell::new(0);
}

pub fn install_observer() {
    let _ = yamaquasi::verif::RELATION_OBSERVER.set(Box::new(|_n, _r| {
        RELS.with(|c| c.set(c.get() + 1));
    }));
}

/// CPU time consumed by the calling thread, in nanoseconds (Linux schedstat).
fn thread_cpu_ns() -> u64 {
    std::fs::read_to_string("/proc/thread-self/schedstat")
        .ok()
        .and_then(|s| s.split_whitespace().next().and_then(|x| x.parse().ok()))
        .unwrap_or(0)
}

struct Probe {
    polls: Arc<AtomicU64>,
    first_true_cpu: Arc<AtomicU64>,
    first_true_rels: Arc<AtomicU64>,
    polls_after: Arc<AtomicU64>,
}

fn prefs_with_abort(k: Option<u64>) -> (Preferences, Probe) {
    let mut p = Preferences::default();
    p.verbosity = Verbosity::Silent;
    let probe = Probe {
        polls: Arc::new(AtomicU64::new(0)),
        first_true_cpu: Arc::new(AtomicU64::new(0)),
        first_true_rels: Arc::new(AtomicU64::new(u64::MAX)),
        polls_after: Arc::new(AtomicU64::new(0)),
    };
    let (polls, ftc, ftr, pa) = (
        probe.polls.clone(),
        probe.first_true_cpu.clone(),
        probe.first_true_rels.clone(),
        probe.polls_after.clone(),
    );
    p.should_abort = Some(Box::new(move || {
        let i = polls.fetch_add(1, Ordering::SeqCst);
        match k {
            Some(k) if i >= k => {
                if ftr.load(Ordering::SeqCst) == u64::MAX {
                    ftr.store(RELS.with(|c| c.get()), Ordering::SeqCst);
                    ftc.store(thread_cpu_ns(), Ordering::SeqCst);
                } else {
                    pa.fetch_add(1, Ordering::SeqCst);
                }
                true
            }
            _ => false,
        }
    }));
    (p, probe)
}

/// CPU time of the whole process (all threads), in milliseconds (/proc/self/stat, 100 Hz ticks).
fn process_cpu_ms() -> u64 {
    let Ok(s) = std::fs::read_to_string("/proc/self/stat") else { return 0 };
    // fields after the parenthesised command name
    let Some(i) = s.rfind(')') else { return 0 };
    let f: Vec<&str> = s[i + 1..].split_whitespace().collect();
    // utime and stime are fields 14 and 15 of the line = indices 11 and 12 after the name
    let ut: u64 = f.get(11).and_then(|x| x.parse().ok()).unwrap_or(0);
    let st: u64 = f.get(12).and_then(|x| x.parse().ok()).unwrap_or(0);
    (ut + st) * 10
}

/// A pooled run whose abort flag is raised from outside once the process has spent `after_cpu_ms`
/// of CPU in it (a watcher thread; CPU-based so that machine load does not move the instant much).
/// Returns the result, the polls and the CPU time of ALL threads between the raising of the flag
/// and the return of the call (this part runs alone, after the parallel parts).
fn pool_promptness(n: Uint, algo: Algo, threads: usize, after_cpu_ms: u64) -> (Result<String, Panicked>, u64, u64, bool) {
    use std::sync::atomic::AtomicBool;
    let polls = Arc::new(AtomicU64::new(0));
    let flag = Arc::new(AtomicBool::new(false));
    let flag_cpu = Arc::new(AtomicU64::new(u64::MAX));
    let finished = Arc::new(AtomicBool::new(false));
    let start = process_cpu_ms();
    let watcher = {
        let (flag, flag_cpu, finished) = (flag.clone(), flag_cpu.clone(), finished.clone());
        std::thread::spawn(move || {
            while !finished.load(Ordering::SeqCst) {
                let c = process_cpu_ms();
                if c.saturating_sub(start) >= after_cpu_ms {
                    flag_cpu.store(c, Ordering::SeqCst);
                    flag.store(true, Ordering::SeqCst);
                    break;
                }
                std::thread::sleep(std::time::Duration::from_millis(5));
            }
        })
    };
    // the call runs on its own thread (Preferences is built there: it is not Send) so that a
    // call that keeps working long after the signal can be given up on
    let (tx, rx) = std::sync::mpsc::channel();
    {
        let (pl, fl) = (polls.clone(), flag.clone());
        std::thread::Builder::new()
            .stack_size(64 << 20)
            .spawn(move || {
                let mut p = Preferences::default();
                p.verbosity = Verbosity::Silent;
                p.threads = Some(threads);
                p.should_abort = Some(Box::new(move || {
                    pl.fetch_add(1, Ordering::SeqCst);
                    fl.load(Ordering::SeqCst)
                }));
                let r = guarded(|| match yamaquasi::factor(n, algo, &p) {
                    Ok(v) => format!("Ok[{}]", v.iter().map(|x| x.to_string()).collect::<Vec<_>>().join("*")),
                    Err(_) => "Err".to_string(),
                });
                let _ = tx.send(r);
            })
            .expect("spawn");
    }
    // give up once the process has burnt GIVE_UP_MS of CPU after the signal
    const GIVE_UP_MS: u64 = 40_000;
    let mut gave_up = false;
    let r = loop {
        match rx.recv_timeout(std::time::Duration::from_millis(20)) {
            Ok(r) => break r,
            Err(std::sync::mpsc::RecvTimeoutError::Timeout) => {
                let ft = flag_cpu.load(Ordering::SeqCst);
                if ft != u64::MAX && process_cpu_ms().saturating_sub(ft) > GIVE_UP_MS {
                    gave_up = true;
                    break Ok("<no return>".to_string());
                }
            }
            Err(_) => break Ok("<worker vanished>".to_string()),
        }
    };
    let end = process_cpu_ms();
    finished.store(true, Ordering::SeqCst);
    let _ = watcher.join();
    let ft = flag_cpu.load(Ordering::SeqCst);
    let after = if ft == u64::MAX { 0 } else { end.saturating_sub(ft) };
    (r, polls.load(Ordering::SeqCst), after, gave_up)
}

#[derive(Clone)]
enum Subject {
    Factor(Uint, Algo),
    ClassGroup(Int),
}

impl Subject {
    fn describe(&self) -> String {
        match self {
            Subject::Factor(n, a) => format!("factor({}, {})", n, algo_name(*a)),
            Subject::ClassGroup(d) => format!("classgroup({})", d),
        }
    }
}

struct RunObs {
    /// None = panicked
    result: Result<String, Panicked>,
    bad_result: Option<String>,
    polls: u64,
    polls_after: u64,
    rels_total: u64,
    rels_after: u64,
    cpu_total_ns: u64,
    cpu_after_ns: u64,
}

fn run_subject(s: &Subject, k: Option<u64>) -> RunObs {
    let (prefs, probe) = prefs_with_abort(k);
    let rels0 = RELS.with(|c| c.get());
    let cpu0 = thread_cpu_ns();
    let mut bad = None;
    let result = guarded(|| match s {
        Subject::Factor(n, a) => match yamaquasi::factor(*n, *a, &prefs) {
            Ok(v) => {
                let c = Case::new(*n, *a, "abort");
                if let Err(e) = check_product(&c, &v) {
                    bad = Some(e);
                }
                format!(
                    "Ok[{}]",
                    v.iter().map(|x| x.to_string()).collect::<Vec<_>>().join("*")
                )
            }
            Err(_) => "Err".to_string(),
        },
        Subject::ClassGroup(d) => match yamaquasi::classgroup::classgroup(d, &prefs, None) {
            Some(g) => format!("Some(h={})", g.h),
            None => "None".to_string(),
        },
    });
    let cpu1 = thread_cpu_ns();
    let rels1 = RELS.with(|c| c.get());
    let ftr = probe.first_true_rels.load(Ordering::SeqCst);
    let (rels_after, cpu_after) = if ftr == u64::MAX {
        (0, 0)
    } else {
        (
            rels1.saturating_sub(ftr),
            cpu1.saturating_sub(probe.first_true_cpu.load(Ordering::SeqCst)),
        )
    };
    RunObs {
        result,
        bad_result: bad,
        polls: probe.polls.load(Ordering::SeqCst),
        polls_after: probe.polls_after.load(Ordering::SeqCst),
        rels_total: rels1 - rels0,
        rels_after,
        cpu_total_ns: cpu1.saturating_sub(cpu0),
        cpu_after_ns: cpu_after,
    }
}

fn subjects(ctx: &Ctx) -> Vec<Subject> {
    let u = |s: &str| Uint::from_str(s).unwrap();
    let mut v = vec![];
    // 40-, 64-, 90-, 110-bit semiprimes and a 3-factor number
    let n40 = u("1000036000099");
    let n64 = u("18446743979220271189"); // 4294967291 * 4294967279
    let n90 = u("618970019643974367030804893");
    let n98 = u("316912650293419769627257278767");
    let n110 = u("649037107316859236188233584869853"); // 2^54+.. * 2^55+..
    let n3 = u("1000073001431003663");
    let all = [
        Algo::Auto,
        Algo::Rho,
        Algo::Squfof,
        Algo::Qs64,
        Algo::Pm1,
        Algo::Ecm,
        Algo::Ecm128,
        Algo::Qs,
        Algo::Mpqs,
        Algo::Siqs,
    ];
    for a in all {
        v.push(Subject::Factor(n40, a));
        v.push(Subject::Factor(n3, a));
        if !matches!(a, Algo::Qs64) {
            v.push(Subject::Factor(n64, a));
        }
    }
    for a in [Algo::Auto, Algo::Ecm, Algo::Ecm128, Algo::Mpqs, Algo::Siqs, Algo::Pm1] {
        v.push(Subject::Factor(n90, a));
        v.push(Subject::Factor(n98, a));
    }
    v.push(Subject::Factor(n90, Algo::Qs));
    // inputs with factors from the small-primes table (trial division runs before the first
    // poll; the answer assembled after an early abort must still multiply to n), a prime,
    // a prime power and a perfect square
    for a in all {
        v.push(Subject::Factor(n40 * u("6"), a));
        v.push(Subject::Factor(n40 * u("4294967296") * u("45"), a));
    }
    for a in [Algo::Auto, Algo::Siqs, Algo::Ecm, Algo::Pm1, Algo::Rho] {
        v.push(Subject::Factor(u("1000003"), a));
        v.push(Subject::Factor(u("1000003") * u("1000003") * u("1000003"), a));
        v.push(Subject::Factor(n64 * u("30030"), a));
        v.push(Subject::Factor(u("1000003") * u("1000003") * u("77"), a));
    }
    if !ctx.quick() {
        for a in [Algo::Auto, Algo::Mpqs, Algo::Siqs, Algo::Ecm] {
            v.push(Subject::Factor(n110, a));
        }
        // a number with many factors: deep recursion of factor_impl, one poll per cofactor
        v.push(Subject::Factor(
            u("1000003") * u("1000033") * u("1000037") * u("1000039") * u("1000081") * u("1000099"),
            Algo::Auto,
        ));
        v.push(Subject::Factor(
            u("1000003") * u("1000033") * u("1000037") * u("1000039") * u("1000081") * u("1000099"),
            Algo::Siqs,
        ));
    }
    for d in ["-1000003", "-4000000007", "-40000000000000000003", "-400000000000000000000000000084"] {
        v.push(Subject::ClassGroup(Int::from_str(d).unwrap()));
    }
    v
}

pub fn run(ctx: &Ctx) -> Report {
    install_observer();
    let mut rep = Report::new("model_checking");
    let subs = subjects(ctx);
    // baseline: unaborted run with a counting predicate
    let base: Vec<RunObs> = subs.par_iter().map(|s| run_subject(s, None)).collect();
    let mut jobs: Vec<(usize, u64)> = vec![];
    for (i, b) in base.iter().enumerate() {
        if let Err(p) = &b.result {
            // the unaborted run itself panics: C03's business, not an abort property
            rep.add_count("subjects_skipped_baseline_panics", 1);
            rep.set(&format!("baseline_panic_{}", i), J::s(format!("{}: {}", subs[i].describe(), p.short())));
            continue;
        }
        for k in 0..=b.polls {
            jobs.push((i, k));
        }
    }
    let obs: Vec<RunObs> = jobs.par_iter().map(|&(i, k)| run_subject(&subs[i], Some(k))).collect();
    let mut outcomes = std::collections::BTreeSet::new();
    let mut max_cpu_after_ms = 0u64;
    let mut per_subject: Vec<J> = vec![];
    for (i, b) in base.iter().enumerate() {
        let mine: Vec<usize> = (0..jobs.len()).filter(|&j| jobs[j].0 == i).collect();
        let mut worst_cpu = 0u64;
        let mut worst_rels = 0u64;
        let mut worst_polls = 0u64;
        let mut distinct = std::collections::BTreeSet::new();
        for &j in &mine {
            let o = &obs[j];
            let k = jobs[j].1;
            rep.states += 1;
            rep.traces += 1;
            rep.evaluations += 1;
            rep.transitions += o.polls.max(1);
            worst_cpu = worst_cpu.max(o.cpu_after_ns);
            worst_rels = worst_rels.max(o.rels_after);
            worst_polls = worst_polls.max(o.polls_after);
            let replay = J::obj(vec![
                ("subject", J::s(subs[i].describe())),
                ("subject_index", J::from(i)),
                ("abort_from_poll", J::from(k)),
            ]);
            let keybase = match &subs[i] {
                Subject::Factor(_, a) => format!("algo={}", algo_name(*a)),
                Subject::ClassGroup(_) => "classgroup".to_string(),
            };
            match &o.result {
                Err(p) => {
                    rep.violation(
                        format!("{};profile={};what=panic;site={}", keybase, ctx.profile, p.site),
                        format!("{} with abort from poll {}: panic {}", subs[i].describe(), k, p.short()),
                        replay,
                    );
                    continue;
                }
                Ok(r) => {
                    distinct.insert(r.clone());
                    outcomes.insert((i, r.clone()));
                    if let Some(b) = &o.bad_result {
                        rep.violation(
                            format!("{};what=bad-result", keybase),
                            format!("{} with abort from poll {}: {} ({})", subs[i].describe(), k, r, b),
                            replay.clone(),
                        );
                    }
                }
            }
            // promptness, in work units:
            // (1) relations published after the predicate first answered true: the sieve may
            //     finish the polynomial family it is in, never half of a complete run;
            if b.rels_total >= 400 && o.rels_after > b.rels_total / 2 {
                rep.violation(
                    format!("{};what=keeps-sieving", keybase),
                    format!(
                        "{} with abort from poll {}: {} relations published after the abort was signalled (complete run: {})",
                        subs[i].describe(), k, o.rels_after, b.rels_total
                    ),
                    replay.clone(),
                );
            }
            // (2) CPU time of the calling thread after the first `true`: bounded by
            //     max(1 s, 3 x the CPU time of the complete unaborted run);
            let bound = (3 * b.cpu_total_ns).max(1_000_000_000);
            if o.cpu_after_ns > bound {
                rep.violation(
                    format!("{};what=slow-abort", keybase),
                    format!(
                        "{} with abort from poll {}: {:.2}s of CPU after the abort was signalled (complete unaborted run: {:.3}s)",
                        subs[i].describe(), k, o.cpu_after_ns as f64 / 1e9, b.cpu_total_ns as f64 / 1e9
                    ),
                    replay.clone(),
                );
            }
            // (3) polls answered true before returning: every pending work item (ECM seed of the
            //     current level: up to 15000; A value; cofactor) polls once more and returns.
            if o.polls_after > b.polls + 20_000 {
                rep.violation(
                    format!("{};what=poll-storm", keybase),
                    format!("{} with abort from poll {}: {} further polls", subs[i].describe(), k, o.polls_after),
                    replay.clone(),
                );
            }
        }
        max_cpu_after_ms = max_cpu_after_ms.max(worst_cpu / 1_000_000);
        per_subject.push(J::obj(vec![
            ("subject", J::s(subs[i].describe())),
            ("polls_unaborted", J::from(b.polls)),
            ("instants", J::from(mine.len())),
            ("relations_unaborted", J::from(b.rels_total)),
            ("distinct_results", J::from(distinct.len())),
            ("max_relations_after_abort", J::from(worst_rels)),
            ("max_polls_after_abort", J::from(worst_polls)),
            ("max_cpu_ms_after_abort", J::from(worst_cpu / 1_000_000)),
            ("cpu_ms_unaborted", J::from(b.cpu_total_ns / 1_000_000)),
        ]));
    }
    // ---- abort already requested when the call starts (the "before the first stage" instant) on
    // large inputs, where the first stages are expensive: every selector that accepts the size.
    // The whole call may cost trial division, the primality test and the polls, nothing else.
    {
        let mut early = vec![];
        let sizes: Vec<u32> = ctx.pick(vec![128u32, 200, 260, 300, 350], vec![128, 200, 260, 300, 350, 400, 450, 500]);
        let mut cases: Vec<(u32, Uint, Algo)> = vec![];
        for &b in &sizes {
            let p = crate::refmodel::next_prime_w(&(crate::refmodel::W::ONE << (b / 2)));
            let q = crate::refmodel::next_prime_w(&((crate::refmodel::W::ONE << (b - b / 2 - 1)) + (crate::refmodel::W::ONE << (b / 3))));
            let n: Uint = crate::refmodel::w_to(&(p * q));
            for a in [Algo::Auto, Algo::Pm1, Algo::Ecm, Algo::Qs, Algo::Mpqs, Algo::Siqs] {
                if a == Algo::Qs && b > 400 {
                    continue;
                }
                cases.push((b, n, a));
            }
        }
        let obs: Vec<RunObs> = cases.par_iter().map(|(_, n, a)| run_subject(&Subject::Factor(*n, *a), Some(0))).collect();
        for ((b, n, a), o) in cases.iter().zip(obs) {
            rep.states += 1;
            rep.evaluations += 1;
            rep.transitions += o.polls;
            let cpu_ms = o.cpu_total_ns / 1_000_000;
            early.push(J::obj(vec![("bits", J::from(*b as u64)), ("algo", J::s(algo_name(*a))), ("cpu_ms", J::from(cpu_ms)), ("polls", J::from(o.polls))]));
            match &o.result {
                Err(p) => rep.violation(
                    format!("algo={};early-abort;profile={};what=panic;site={}", algo_name(*a), ctx.profile, p.site),
                    format!("factor({}-bit semiprime, {}) with the abort predicate true from the start: panic {}", b, algo_name(*a), p.short()),
                    J::obj(vec![("n", J::s(*n)), ("algo", J::s(algo_name(*a))), ("abort_from_poll", J::from(0u64))]),
                ),
                Ok(r) => {
                    if let Some(e) = &o.bad_result {
                        rep.violation(
                            format!("algo={};early-abort;what=bad-result", algo_name(*a)),
                            format!("factor({}-bit semiprime, {}) with the abort predicate true from the start returned {}: {}", b, algo_name(*a), r, e),
                            J::obj(vec![("n", J::s(*n)), ("algo", J::s(algo_name(*a))), ("abort_from_poll", J::from(0u64))]),
                        );
                    } else if cpu_ms > 1_000 {
                        rep.violation(
                            format!("algo={};early-abort;what=slow-abort", algo_name(*a)),
                            format!("factor({}-bit semiprime n={}, {}) with the abort predicate true from the start returned {} after {:.1} s of CPU ({} polls): a method was started and run to its end although the interruption was already requested; bound 1 s", b, n, algo_name(*a), r, cpu_ms as f64 / 1000.0, o.polls),
                            J::obj(vec![("n", J::s(*n)), ("algo", J::s(algo_name(*a))), ("abort_from_poll", J::from(0u64))]),
                        );
                    }
                }
            }
        }
        rep.set("aborted_from_the_start_runs", J::A(early));
    }
    // ---- pooled runs (sequential section: nothing else consumes CPU in this process now):
    // inputs the method does not split, abort flag raised from outside, 2 and 4 threads. All threads
    // together may finish the work item they are in, not the rest of the batch.
    {
        let u = |s: &str| Uint::from_str(s).unwrap();
        // two 100-bit primes (reference primality test): out of reach of ECM curves of this level
        let p1 = crate::refmodel::next_prime_w(&(crate::refmodel::W::ONE << 99));
        let p2 = crate::refmodel::next_prime_w(&((crate::refmodel::W::ONE << 100) - (crate::refmodel::W::ONE << 97)));
        let hard: Uint = crate::refmodel::w_to(&(p1 * p2));
        let n110 = u("649037107316859236188233584869853");
        let harder: Uint = {
            let p1 = crate::refmodel::next_prime_w(&(crate::refmodel::W::ONE << 124));
            let p2 = crate::refmodel::next_prime_w(&((crate::refmodel::W::ONE << 125) - (crate::refmodel::W::ONE << 121)));
            crate::refmodel::w_to(&(p1 * p2))
        };
        let mut pooled = vec![];
        let _ = n110;
        for (n, a, th, k, name) in [
            (hard, Algo::Ecm, 2usize, 3000u64, "200-bit, Ecm"),
            (hard, Algo::Ecm, 4, 6000, "200-bit, Ecm"),
            (hard, Algo::Auto, 2, 3000, "200-bit, Auto"),
            (hard, Algo::Siqs, 2, 3000, "200-bit, Siqs"),
            (hard, Algo::Mpqs, 2, 3000, "200-bit, Mpqs"),
            // optimised builds finish the 200-bit input before the signal: a 250-bit one as well
            (harder, Algo::Auto, 2, 4000, "250-bit, Auto"),
            (harder, Algo::Siqs, 2, 4000, "250-bit, Siqs"),
            (harder, Algo::Mpqs, 2, 4000, "250-bit, Mpqs"),
            (harder, Algo::Mpqs, 4, 4000, "250-bit, Mpqs"),
        ] {
            let (r, polls, cpu_after, gave_up) = pool_promptness(n, a, th, k);
            rep.states += 1;
            rep.evaluations += 1;
            rep.transitions += polls;
            pooled.push(J::obj(vec![("subject", J::s(name)), ("threads", J::from(th)), ("abort_after_cpu_ms", J::from(k)), ("cpu_ms_all_threads_after_abort", J::from(cpu_after)), ("polls", J::from(polls))]));
            let stop = gave_up;
            match r {
                Err(p) => rep.violation(
                    format!("algo={};pool={};profile={};what=panic;site={}", algo_name(a), th, ctx.profile, p.site),
                    format!("factor({}, {}) with {} threads and abort raised after {} ms of CPU: panic {}", name, algo_name(a), th, k, p.short()),
                    J::obj(vec![("n", J::s(n)), ("threads", J::from(th)), ("abort_from_poll", J::from(k))]),
                ),
                Ok(_) => {
                    if cpu_after > 2_500 || gave_up {
                        rep.violation(
                            format!("algo={};pool={};what=slow-abort", algo_name(a), th),
                            format!("factor({}, {}) with {} threads and abort raised after {} ms of CPU: {:.1} s of CPU (all threads) between the signal and the return; bound 2.5 s (a work item at that level takes about 0.07 s per thread)", name, algo_name(a), th, k, cpu_after as f64 / 1000.0),
                            J::obj(vec![("n", J::s(n)), ("threads", J::from(th)), ("abort_from_poll", J::from(k))]),
                        );
                    }
                }
            }
            if stop {
                // the abandoned call still burns CPU in this process: later measurements would be noise
                rep.set("pooled_runs_stopped_after_a_call_that_did_not_return", J::B(true));
                break;
            }
        }
        rep.set("pooled_runs", J::A(pooled));
    }
    rep.nontrivial = outcomes.len() as u64;
    for j in per_subject.iter().take(6) {
        rep.sample(j.clone());
    }
    rep.set("subjects", J::A(per_subject));
    rep.set("max_cpu_ms_after_abort", J::from(max_cpu_after_ms));
    rep.rule = "Sequential part: for each subject (10 selectors x 40-/64-bit/3-factor inputs, the polling selectors on 90/98/110-bit inputs, classgroup on 4 discriminants) the unaborted run is executed once with a counting predicate (N polls); then for EVERY k in [0,N] the run is repeated with a predicate answering true from its k-th call on. states = (subject,k) instants, transitions = polls executed, every run is a trace on the implementation. Oracle: no panic; Ok(list with product n, sorted, no 0/1) or Err / None; after the first true answer: relations published <= half a complete run, thread CPU time <= max(1s, 3x complete run), further polls <= N+20000 (every pending work item polls once and returns). distinct_nontrivial = distinct (subject, result) pairs. Abort already true when the call starts: 128..350-bit (thorough: ..500-bit) semiprimes x {Auto,Pm1,Ecm,Qs,Mpqs,Siqs}: CPU of the whole call <= 1 s. Pooled runs (2 and 4 threads, ECM / SIQS / MPQS / automatic mode on inputs they do not split quickly, abort flag raised from outside after 3 s / 6 s of CPU): CPU time of all threads between the signal and the return <= 2.5 s (measured: 0.07-0.6 s).".into();
    rep.assumptions.push("stages that never poll (rho, P-1, ECM128, linear algebra) delay the return by their own duration; this is bounded by the CPU-time oracle only".into());
    rep.assumptions.push("thread CPU time from /proc/thread-self/schedstat".into());
    rep
}

pub fn replay(ctx: &Ctx, path: &std::path::Path) -> i32 {
    install_observer();
    let s = std::fs::read_to_string(path).expect("replay file");
    let num = |k: &str| -> u64 {
        let pat = format!("\"{}\":", k);
        let i = s.rfind(&pat).expect("field") + pat.len();
        s[i..].chars().take_while(|c| c.is_ascii_digit()).collect::<String>().parse().unwrap()
    };
    let i = num("subject_index") as usize;
    let k = num("abort_from_poll");
    let subs = subjects(&Ctx {
        tier: Tier::Thorough,
        ..ctx.clone()
    });
    let subs_q = subjects(&Ctx {
        tier: Tier::Quick,
        ..ctx.clone()
    });
    let sub = if s.contains("\"tier\":\"quick\"") || i < subs_q.len() && subs_q[i].describe() == subs[i].describe() {
        subs_q.get(i).cloned().unwrap_or_else(|| subs[i].clone())
    } else {
        subs[i].clone()
    };
    println!("replaying {} with abort from poll {}", sub.describe(), k);
    let b = run_subject(&sub, None);
    let o = run_subject(&sub, Some(k));
    println!(
        "result={:?} bad={:?} polls={} polls_after={} rels_after={} (complete {}) cpu_after={:.3}s (complete {:.3}s)",
        o.result.as_ref().map_err(|p| p.short()),
        o.bad_result,
        o.polls,
        o.polls_after,
        o.rels_after,
        b.rels_total,
        o.cpu_after_ns as f64 / 1e9,
        b.cpu_total_ns as f64 / 1e9
    );
    let bad = o.result.is_err()
        || o.bad_result.is_some()
        || (b.rels_total >= 400 && o.rels_after > b.rels_total / 2)
        || o.cpu_after_ns > (3 * b.cpu_total_ns).max(1_000_000_000)
        || o.polls_after > b.polls + 20_000;
    let _ = PrefSpec::default();
    if bad {
        1
    } else {
        0
    }
}
