//! C06: primality decisions — exhaustive comparison with an Eratosthenes table
//! below 2^24 (quick) / 2^32 (thorough), complete windows at the tier switches,
//! structured pseudoprime families, the psi_k list, multiprecision agreement.

use std::process::{Command, Stdio};
use std::str::FromStr;
use std::time::Duration;

use rayon::prelude::*;
use yamaquasi::{isprime64, pseudoprime, Uint};

use crate::common::*;
use crate::refmodel::{self as rm, W};

/// Child mode: `c06-probe <n>...` prints one line per answered input.
pub fn probe_main(args: &[String]) -> i32 {
    use std::io::Write;
    for a in args {
        let p: u64 = a.parse().unwrap();
        let r = isprime64(p);
        println!("{} {}", p, r);
        let _ = std::io::stdout().flush();
    }
    0
}

/// Runs isprime64 on the inputs in a subprocess with a wall cap; returns the answers obtained.
fn probe(inputs: &[u64], cap: Duration) -> Vec<(u64, bool)> {
    let exe = std::env::current_exe().unwrap();
    let mut child = Command::new(exe)
        .arg("c06-probe")
        .args(inputs.iter().map(|x| x.to_string()))
        .stdout(Stdio::piped())
        .stderr(Stdio::null())
        .spawn()
        .expect("spawn probe");
    let t0 = std::time::Instant::now();
    loop {
        match child.try_wait() {
            Ok(Some(_)) => break,
            Ok(None) => {
                if t0.elapsed() > cap {
                    let _ = child.kill();
                    break;
                }
                std::thread::sleep(Duration::from_millis(20));
            }
            Err(_) => break,
        }
    }
    let out = child.wait_with_output().expect("probe output");
    let mut v = vec![];
    for l in String::from_utf8_lossy(&out.stdout).lines() {
        let mut it = l.split_whitespace();
        if let (Some(a), Some(b)) = (it.next(), it.next()) {
            v.push((a.parse().unwrap(), b == "true"));
        }
    }
    v
}

const PSI: [u64; 7] = [
    2047,
    1373653,
    25326001,
    3215031751,
    2152302898747,
    3474749660383,
    341550071728321,
];
const PSI9: u64 = 3825123056546413051;

pub fn run(ctx: &Ctx) -> Report {
    let mut rep = Report::new("exploration");
    // ---- 0. even inputs: does the call return at all?
    let evens: Vec<u64> = vec![
        0, 2, 4, 198, 200, 202, 1 << 20, (1 << 20) + 2, 1 << 32, (1u64 << 40) + 6, 1 << 63, u64::MAX - 1,
    ];
    let answered = probe(&evens, Duration::from_secs(5));
    let mut evens_ok = true;
    for &e in &evens {
        rep.evaluations += 1;
        match answered.iter().find(|x| x.0 == e) {
            None => {
                evens_ok = false;
                rep.violation(
                    "fn=isprime64;what=no-answer;input=even".into(),
                    format!("isprime64({}) did not return within 5 s (even input)", e),
                    J::obj(vec![("fn", J::s("isprime64")), ("p", J::s(e))]),
                );
                break; // the remaining inputs were never reached
            }
            Some(&(_, r)) => {
                if r != (e == 2) {
                    rep.violation(
                        "fn=isprime64;what=wrong;input=even".into(),
                        format!("isprime64({}) = {}", e, r),
                        J::obj(vec![("fn", J::s("isprime64")), ("p", J::s(e))]),
                    );
                }
            }
        }
    }
    rep.set("even_inputs_answered", J::B(evens_ok));
    let skip_even = !evens_ok;
    let check = |p: u64| -> Option<bool> {
        if skip_even && p % 2 == 0 && p >= 199 {
            return None;
        }
        Some(isprime64(p))
    };

    // ---- 1. exhaustive range against the sieve table
    let limit: u64 = ctx.pick(1 << 24, 1 << 32);
    let sieve = rm::OddSieve::new(limit + 1);
    let chunk = 1u64 << 20;
    let nchunks = (limit + chunk - 1) / chunk;
    let bad: Vec<(u64, bool)> = (0..nchunks)
        .into_par_iter()
        .flat_map(|c| {
            let mut bad = vec![];
            let lo = c * chunk;
            let hi = ((c + 1) * chunk).min(limit);
            for p in lo..hi {
                if let Some(r) = check(p) {
                    if r != sieve.is_prime(p) {
                        bad.push((p, r));
                    }
                }
            }
            bad
        })
        .collect();
    rep.evaluations += limit;
    let mut nprimes = 0u64;
    {
        // count primes in range (non-trivial positives)
        let cnt: u64 = (0..nchunks)
            .into_par_iter()
            .map(|c| {
                let lo = c * chunk;
                let hi = ((c + 1) * chunk).min(limit);
                (lo..hi).filter(|&p| sieve.is_prime(p)).count() as u64
            })
            .sum();
        nprimes += cnt;
    }
    for (p, r) in bad.iter().take(50) {
        rep.violation(
            format!("fn=isprime64;what=wrong;range=below-2^32;p={}", p),
            format!("isprime64({}) = {} but the sieve table says {}", p, r, !r),
            J::obj(vec![("fn", J::s("isprime64")), ("p", J::s(p))]),
        );
    }
    // ---- 2. complete windows at tier switches (oracle: reference MR + trial division)
    let mut windows: Vec<(u64, u64)> = vec![
        (0, 1 << 12),
        ((1 << 20) - (1 << 12), (1 << 20) + (1 << 12)),
        ((1 << 40) - (1 << 12), (1 << 40) + (1 << 12)),
        ((1 << 41) - (1 << 10), (1 << 41) + (1 << 10)),
        ((1 << 32) - (1 << 12), (1 << 32) + (1 << 12)),
        ((1 << 63) - (1 << 10), (1 << 63) + (1 << 10)),
        (u64::MAX - (1 << 12), u64::MAX),
    ];
    if !ctx.quick() {
        for k in [21u32, 24, 31, 39, 42, 48, 52, 56, 62] {
            windows.push(((1u64 << k) - (1 << 12), (1u64 << k) + (1 << 12)));
        }
    }
    let mut nontrivial_composites = 0u64;
    let mut record = |rep: &mut Report, p: u64, expect: bool, fam: &str| {
        rep.evaluations += 1;
        if let Some(r) = check(p) {
            if r != expect {
                rep.violation(
                    format!("fn=isprime64;what=wrong;family={};p={}", fam, p),
                    format!("isprime64({}) = {} but the reference test says {}", p, r, expect),
                    J::obj(vec![("fn", J::s("isprime64")), ("p", J::s(p))]),
                );
            }
        }
        // multiprecision agreement
        let r2 = pseudoprime(Uint::from_digit(p));
        if r2 != expect {
            rep.violation(
                format!("fn=pseudoprime;what=wrong;family={};p={}", fam, p),
                format!("pseudoprime({}) = {} but the reference test says {}", p, r2, expect),
                J::obj(vec![("fn", J::s("pseudoprime")), ("p", J::s(p))]),
            );
        }
    };
    for &(lo, hi) in &windows {
        let mut p = lo;
        loop {
            let e = rm::is_prime_u64(p);
            if e {
                nprimes += 1;
            }
            record(&mut rep, p, e, "window");
            if p == hi {
                break;
            }
            p += 1;
        }
    }
    // ---- 3. structured composite families, completely enumerated within bounds
    // n = p * (a p - b) with both factors prime, for (a, b) in {(2,1), (3,2), (4,3), (5,4)}: the
    // shapes that carry almost all strong pseudoprimes to several bases. EVERY such n below 2^64
    // is enumerated (p up to 2^31.5 for a = 2) with a segmented sieve over p; the quick tier
    // covers the whole (2,1) family and p < 2^29 for the other three.
    const FAMS: [(u64, u64); 4] = [(2, 1), (3, 2), (4, 3), (5, 4)];
    let fam_pmax = |a: u64, bb: u64| -> u64 {
        // largest p with p*(a p - b) < 2^64
        let mut p = ((u64::MAX as f64) / a as f64).sqrt() as u64 + 4;
        while (p as u128) * ((a * p - bb) as u128) >> 64 != 0 {
            p -= 1;
        }
        p
    };
    let other_cap: u64 = ctx.pick(1 << 29, u64::MAX);
    let pmaxes: Vec<u64> = FAMS.iter().map(|&(a, bb)| if a == 2 { fam_pmax(a, bb) } else { fam_pmax(a, bb).min(other_cap) }).collect();
    let pmax = *pmaxes.iter().max().unwrap();
    let base_primes = rm::primes_below(1 << 16);
    const SEG: u64 = 1 << 22;
    let nseg = (pmax + SEG) / SEG;
    let fams: Vec<(u64, u64, u64, Vec<(u64, u64, u64)>)> = (0..nseg)
        .into_par_iter()
        .map(|sg| {
            // returns (cases, spsp{2,3}, spsp{2..11}, wrong: (n, p, q))
            let lo = sg * SEG;
            let hi = (lo + SEG).min(pmax + 1);
            let mut comp = vec![false; (hi - lo) as usize];
            for &bp in &base_primes {
                if bp * bp >= hi {
                    break;
                }
                let mut m = ((lo + bp - 1) / bp).max(bp) * bp;
                while m < hi {
                    comp[(m - lo) as usize] = true;
                    m += bp;
                }
            }
            let mut cases = 0;
            let mut s23 = 0;
            let mut s11 = 0;
            let mut wrong = vec![];
            for p in lo.max(3)..hi {
                if comp[(p - lo) as usize] {
                    continue;
                }
                for (fi, &(a, bb)) in FAMS.iter().enumerate() {
                    if p > pmaxes[fi] {
                        continue;
                    }
                    let q = a * p - bb;
                    if q % 2 == 0 || q % 3 == 0 && q != 3 || q % 5 == 0 && q != 5 || q % 7 == 0 && q != 7 {
                        continue;
                    }
                    if !rm::is_prime_u64(q) {
                        continue;
                    }
                    let n = p * q;
                    cases += 1;
                    if rm::sprp64(n, 2) && rm::sprp64(n, 3) {
                        s23 += 1;
                        if [5u64, 7, 11].iter().all(|&b| rm::sprp64(n, b)) {
                            s11 += 1;
                        }
                    }
                    if isprime64(n) && wrong.len() < 10 {
                        wrong.push((n, p, q));
                    }
                }
            }
            (cases, s23, s11, wrong)
        })
        .collect();
    let (mut fc, mut f23, mut f11) = (0, 0, 0);
    let mut fwrong: Vec<(u64, u64, u64)> = vec![];
    for (a, b, c, d) in fams {
        fc += a;
        f23 += b;
        f11 += c;
        fwrong.extend(d);
    }
    rep.evaluations += fc;
    nontrivial_composites += f23;
    rep.set("family_p_ap_b_pmax", J::s(format!("{:?}", pmaxes)));
    fwrong.sort();
    for &(n, p, q) in fwrong.iter().take(10) {
        rep.violation(
            format!("fn=isprime64;what=wrong;family=p(ap-b);p={}", n),
            format!("isprime64({}) = true but n = {} * {}", n, p, q),
            J::obj(vec![("fn", J::s("isprime64")), ("p", J::s(n))]),
        );
    }
    // Carmichael numbers (6k+1)(12k+1)(18k+1): every k below kmax, then every k of windows
    // placed so that the products have 65..135 bits (multiprecision test only)
    let kmax: u64 = ctx.pick(1 << 17, 1 << 20);
    let mut carm = 0u64;
    let mut carm_big = 0u64;
    let mut kranges: Vec<(u64, u64)> = vec![(1, kmax)];
    for (e, w) in [(18u32, 14u32), (20, 14), (24, 13), (30, 13), (36, 12), (40, 12)] {
        kranges.push((1 << e, (1u64 << e) + (1 << w)));
    }
    for (klo, khi) in kranges {
        for k in klo..khi {
            let (a, b, c) = (6 * k + 1, 12 * k + 1, 18 * k + 1);
            if rm::is_prime_u64(a) && rm::is_prime_u64(b) && rm::is_prime_u64(c) {
                let n = rm::w_u64(a) * rm::w_u64(b) * rm::w_u64(c);
                carm += 1;
                if n.bits() <= 64 {
                    let n = n.digits()[0];
                    if rm::sprp64(n, 2) && rm::sprp64(n, 3) {
                        nontrivial_composites += 1;
                    }
                    record(&mut rep, n, false, "chernick");
                } else {
                    // multiprecision only
                    carm_big += 1;
                    nontrivial_composites += 1;
                    rep.evaluations += 1;
                    if pseudoprime(rm::w_to(&n)) {
                        rep.violation(
                            format!("fn=pseudoprime;what=wrong;family=chernick;p={}", n),
                            format!("pseudoprime({}) = true but n = {}*{}*{}", n, a, b, c),
                            J::obj(vec![("fn", J::s("pseudoprime")), ("p", J::s(n))]),
                        );
                    }
                }
            }
        }
    }
    rep.set("chernick_carmichael_numbers_above_64_bits", J::from(carm_big));
    rep.set("chernick_carmichael_numbers", J::from(carm));
    // psi list
    for &n in PSI.iter().chain([PSI9].iter()) {
        nontrivial_composites += 1;
        record(&mut rep, n, false, "psi");
    }
    for s in ["318665857834031151167461", "3317044064679887385961981"] {
        rep.evaluations += 1;
        if pseudoprime(Uint::from_str(s).unwrap()) {
            rep.violation(
                format!("fn=pseudoprime;what=wrong;family=psi;p={}", s),
                format!("pseudoprime({}) = true (psi_12/psi_13 is composite)", s),
                J::obj(vec![("fn", J::s("pseudoprime")), ("p", J::s(s))]),
            );
        }
    }
    // ---- 4. multiprecision: agreement on [0, 2^16], evens, boundary primes and their products
    for p in 0..(1u64 << 16) {
        rep.evaluations += 1;
        let e = sieve.is_prime(p);
        if pseudoprime(Uint::from_digit(p)) != e {
            rep.violation(
                format!("fn=pseudoprime;what=wrong;family=small;p={}", p),
                format!("pseudoprime({}) = {}", p, !e),
                J::obj(vec![("fn", J::s("pseudoprime")), ("p", J::s(p))]),
            );
        }
    }
    let mut bigprimes: Vec<W> = vec![];
    for k in [65u32, 96, 127, 128, 129, 192, 255, 256, 257, 320, 384, 448, 499, 500] {
        bigprimes.push(rm::prev_prime_w(&(W::ONE << k)));
        if !ctx.quick() || k <= 257 {
            bigprimes.push(rm::next_prime_w(&(W::ONE << (k - 1))));
        }
    }
    for p in &bigprimes {
        rep.evaluations += 1;
        nprimes += 1;
        let pu: Uint = rm::w_to(p);
        if !pseudoprime(pu) {
            rep.violation(
                format!("fn=pseudoprime;what=rejects-prime;p={}", p),
                format!("pseudoprime rejects the certified prime {}", p),
                J::obj(vec![("fn", J::s("pseudoprime")), ("p", J::s(p))]),
            );
        }
        // even multiples / even neighbours
        for e in [*p + W::ONE, *p * W::TWO] {
            if e.bits() <= 500 {
                rep.evaluations += 1;
                if pseudoprime(rm::w_to(&e)) {
                    rep.violation(
                        format!("fn=pseudoprime;what=accepts-even;p={}", e),
                        format!("pseudoprime accepts the even number {}", e),
                        J::obj(vec![("fn", J::s("pseudoprime")), ("p", J::s(e))]),
                    );
                }
            }
        }
    }
    // structured even numbers above 64 bits: c*2^sh + d (low word 0, 2, 4, 6; every shift)
    for sh in 64..=498u32 {
        for c in [1u64, 3] {
            for d in [0u64, 2, 4, 6] {
                let e = (W::from_digit(c) << sh) + W::from_digit(d);
                if e.bits() > 500 {
                    continue;
                }
                rep.evaluations += 1;
                if pseudoprime(rm::w_to(&e)) {
                    rep.violation(
                        "fn=pseudoprime;what=accepts-even;family=c*2^sh+d".into(),
                        format!("pseudoprime accepts the even number {}*2^{}+{}", c, sh, d),
                        J::obj(vec![("fn", J::s("pseudoprime")), ("p", J::s(e))]),
                    );
                }
            }
        }
    }
    for i in 0..bigprimes.len() {
        for j in i..bigprimes.len() {
            let n = bigprimes[i] * bigprimes[j];
            if n.bits() > 500 {
                continue;
            }
            rep.evaluations += 1;
            nontrivial_composites += 1;
            if pseudoprime(rm::w_to(&n)) {
                rep.violation(
                    format!("fn=pseudoprime;what=wrong;family=product;p={}", n),
                    format!("pseudoprime accepts {} = {} * {}", n, bigprimes[i], bigprimes[j]),
                    J::obj(vec![("fn", J::s("pseudoprime")), ("p", J::s(n))]),
                );
            }
        }
    }
    rep.nontrivial = nprimes + nontrivial_composites;
    rep.set("primes_confirmed", J::from(nprimes));
    rep.set("structured_family_cases", J::from(fc));
    rep.set("structured_spsp_to_2_3", J::from(f23));
    rep.set("structured_spsp_to_2_3_5_7_11", J::from(f11));
    rep.sample(J::obj(vec![("isprime64", J::s(PSI9)), ("expected", J::B(false)), ("family", J::s("psi_9..11"))]));
    rep.sample(J::obj(vec![("isprime64", J::s(2152302898747u64)), ("expected", J::B(false)), ("family", J::s("psi_5, in [2^40,2^41)"))]));
    rep.sample(J::obj(vec![("isprime64", J::s("every p < limit")), ("limit", J::from(limit)), ("oracle", J::s("odd-only Eratosthenes bit table"))]));
    rep.sample(J::obj(vec![("pseudoprime", J::s(bigprimes[bigprimes.len() - 1])), ("expected", J::B(true))]));
    rep.rule = format!("isprime64 on EVERY p < {} against an Eratosthenes table; every p in complete windows of width 2^13 around 2^20, 2^32, 2^40, 2^41, 2^63 and below 2^64 (thorough: 9 more) against the reference test; every n = p(ap-b) with (a,b) in {{(2,1),(3,2),(4,3),(5,4)}}, both factors prime and p up to {} respectively (segmented sieve over p; for (2,1) this is every such n below 2^64); every Chernick Carmichael number with k < {} and with k in windows at 2^18,2^20,2^24,2^30,2^36,2^40 (65..135-bit products); psi_1..psi_13; even inputs in a watchdogged subprocess; pseudoprime() on all of those that fit plus [0,2^16], certified boundary primes of 65..500 bits (accept), their even neighbours and every c*2^sh+d (c in 1,3; sh in 64..498; d in 0,2,4,6) (reject) and all pairwise products <= 500 bits (reject). distinct_nontrivial = primes confirmed + composites that are strong pseudoprimes to {{2,3}} (inputs a weakened tier would misjudge) + psi list + big products.", limit, format!("{:?}", pmaxes), kmax);
    rep.assumptions.push("reference: Eratosthenes below the limit; trial division + 12-base Miller-Rabin (deterministic below 3.18e23) on u64; MR24 + strong Lucas above".into());
    rep
}

pub fn replay(_ctx: &Ctx, path: &std::path::Path) -> i32 {
    let s = std::fs::read_to_string(path).expect("replay file");
    let get = |k: &str| -> String {
        let pat = format!("\"{}\":\"", k);
        let i = s.rfind(&pat).expect("field") + pat.len();
        let j = s[i..].find('"').unwrap() + i;
        s[i..j].to_string()
    };
    let f = get("fn");
    let p = get("p");
    let w = W::from_str(&p).unwrap();
    let expect = rm::is_prime_w(&w);
    println!("replay {}({}) reference={}", f, p, expect);
    if f == "isprime64" {
        let v: u64 = p.parse().unwrap();
        let got = probe(&[v], Duration::from_secs(10));
        println!("answer: {:?}", got);
        if got.len() == 1 && got[0].1 == expect {
            0
        } else {
            1
        }
    } else {
        let got = pseudoprime(Uint::from_str(&p).unwrap());
        println!("answer: {}", got);
        if got == expect {
            0
        } else {
            1
        }
    }
}
