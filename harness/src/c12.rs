//! C12: sieving polynomials carry correct roots and square-root identities.
//! Explicit enumeration of Gray-code polynomial walks (history = sequence of next()),
//! MPQS polynomials around the real target, classical QS root preparation.

use bnum::cast::CastFrom;
use bnum::types::I256;
use rayon::prelude::*;
use yamaquasi::arith::{Dividers, Inverter};
use yamaquasi::fbase::{self, FBase};
use yamaquasi::{mpqs, qsieve, siqs};
use yamaquasi::{Int, Preferences, Uint, Verbosity};

use crate::common::*;
use crate::refmodel::{self as rm, W};

struct Bad {
    key: String,
    what: String,
}

/// x mod p for a signed 256-bit value.
fn imod(x: &I256, p: u64) -> u64 {
    let pp = I256::from(p as i64);
    let r = *x % pp;
    let r = if r.is_negative() { r + pp } else { r };
    u64::cast_from(r)
}

/// (is_negative, |x|) of a signed 256-bit value, in the wide reference type.
fn sw(x: &I256) -> (bool, W) {
    (x.is_negative(), rm::w_from(&Uint::cast_from(x.unsigned_abs())))
}

fn umod(n: &Uint, p: u64) -> u64 {
    (rm::w_from(n) % W::from_digit(p)).digits()[0]
}

fn mulmod(a: u64, b: u64, p: u64) -> u64 {
    ((a as u128 * b as u128) % p as u128) as u64
}

/// The inputs of the enumeration: first n >= 2^(b-1) in each class mod 8 without prime
/// factors below 1000 and not a perfect square.
fn moduli(sizes: &[u32]) -> Vec<Uint> {
    let small = rm::primes_below(1000);
    let mut v = vec![];
    for &b in sizes {
        for cls in [1u64, 3, 5, 7] {
            let mut n = W::ONE << (b - 1);
            n = n - (n % W::from_digit(8)) + W::from_digit(cls);
            if n.bits() < b {
                n += W::from_digit(8);
            }
            loop {
                let ok = small.iter().all(|&p| !(n % W::from_digit(p)).is_zero());
                if ok {
                    break;
                }
                n += W::from_digit(8);
            }
            v.push(rm::w_to(&n));
        }
    }
    v
}

/// Check the value table of a quadratic v(x) mod p against the stored roots.
/// eval(x) returns P(x) mod p.
fn check_roots(
    p: u64,
    r1: u64,
    r2: u64,
    eval: &dyn Fn(u64) -> u64,
    linear: bool,
    degenerate: bool,
    tag: &str,
    ctxs: &dyn Fn() -> String,
    bad: &mut Vec<Bad>,
) -> u64 {
    let mut ev = 1;
    if p == 2 {
        // at least the residues where the value is even
        for x in 0..2u64 {
            if eval(x) == 0 && r1 % 2 != x && r2 % 2 != x {
                bad.push(Bad {
                    key: format!("sieve={};what=root-missing;p=2", tag),
                    what: format!("{}: P(start+{}) is even but the table holds ({},{})", ctxs(), x, r1, r2),
                });
            }
        }
        return ev;
    }
    if r1 >= p || r2 >= p {
        bad.push(Bad {
            key: format!("sieve={};what=root-out-of-range", tag),
            what: format!("{}: roots ({},{}) not below p={}", ctxs(), r1, r2, p),
        });
        return ev;
    }
    if eval(r1) != 0 || eval(r2) != 0 {
        bad.push(Bad {
            key: format!("sieve={};what=not-a-root", tag),
            what: format!("{}: p={} table ({},{}) but P(start+r) mod p = ({},{})", ctxs(), p, r1, r2, eval(r1), eval(r2)),
        });
        return ev;
    }
    if !linear && !degenerate && r1 == r2 {
        bad.push(Bad {
            key: format!("sieve={};what=root-missing", tag),
            what: format!("{}: p={} has two distinct roots but the table holds ({},{})", ctxs(), p, r1, r2),
        });
        return ev;
    }
    if p < 4096 {
        // brute force: exactly the zero set
        ev += p;
        for x in 0..p {
            let z = eval(x) == 0;
            let listed = x == r1 || x == r2;
            if z != listed {
                bad.push(Bad {
                    key: format!("sieve={};what={}", tag, if z { "root-missing" } else { "not-a-root" }),
                    what: format!("{}: p={} x={}: P(start+x) mod p {} but table is ({},{})", ctxs(), p, x, if z { "= 0" } else { "!= 0" }, r1, r2),
                });
                return ev;
            }
        }
    }
    ev
}

fn prefs() -> Preferences {
    let mut p = Preferences::default();
    p.verbosity = Verbosity::Silent;
    p
}

struct Tally {
    evals: u64,
    polys: u64,
    nexts: u64,
    bad: Vec<Bad>,
}

fn siqs_modulus(n0: &Uint, use_mult: bool, max_polys: usize, na: usize) -> Tally {
    let mut t = Tally {
        evals: 0,
        polys: 0,
        nexts: 0,
        bad: vec![],
    };
    let k = if use_mult { fbase::select_multiplier(*n0).0 } else { 1 };
    let n = *n0 * Uint::from_digit(k as u64);
    let prefs = prefs();
    let r = guarded(|| {
        let use_double = n.bits() > 256;
        let (fbsz, nfacs, acount, mm, lpf, _dlf) = siqs::verif_access::params(&n, use_double);
        let fb = FBase::new(Int::cast_from(n), fbsz);
        let nint = Int::cast_from(n);
        let factors = siqs::select_siqs_factors(&fb, &nint, nfacs as usize, mm as usize, Verbosity::Silent);
        let a_ints = siqs::select_a(&factors, acount, Verbosity::Silent);
        let maxlarge = (fb.bound() as u64 * lpf).min((1 << 32) - 1);
        let s = siqs::SieveSIQS::new(nint, &fb, maxlarge, 0, mm as usize, &prefs);
        let start = -(mm as i64) / 2;
        let mut picks: Vec<usize> = (0..a_ints.len().min(na)).collect();
        if a_ints.len() > na {
            picks.push(a_ints.len() - 1);
        }
        for ai in picks {
            let a = siqs::prepare_a(&factors, &a_ints[ai], &fb, start);
            let aprimes = siqs::verif_access::a_primes(&a);
            let aval = siqs::verif_access::a_value(&a);
            // A must be the product of its listed primes
            let prod = aprimes.iter().fold(Uint::ONE, |x, &p| x * Uint::from_digit(p));
            if prod != aval {
                t.bad.push(Bad {
                    key: "sieve=siqs;what=a-factors".into(),
                    what: format!("n={} A={} is not the product of its listed primes {:?}", n, aval, aprimes),
                });
            }
            let npolys = 1usize << (aprimes.len().max(1) - 1);
            let mut pol = siqs::Poly::first(&s, &a);
            for idx in 0..npolys.min(max_polys) {
                if idx > 0 {
                    pol.next(&s, &a);
                    t.nexts += 1;
                }
                t.polys += 1;
                let (pa, pb, pc, type2, pidx) = siqs::verif_access::poly_coeffs(&pol);
                let ctxs = || format!("siqs n={} k={} A={} (A #{}, primes {:?}) poly index {}", n0, k, pa, ai, aprimes, idx);
                if pidx != idx {
                    t.bad.push(Bad {
                        key: "sieve=siqs;what=index".into(),
                        what: format!("{}: polynomial reports index {}", ctxs(), pidx),
                    });
                }
                // (i) identity at three points: y^2 - 4 A P(x) = n (type 2) or 4n (type 1)
                for x in [-1i64, 0, 1] {
                    let (v, y) = siqs::verif_access::poly_eval(&pol, x);
                    // exact integer identity in 2560-bit arithmetic (I256 would wrap above 255 bits)
                    let (_, yw) = sw(&y);
                    let (vneg, vw) = sw(&v);
                    let (_, aw) = sw(&pa);
                    let y2 = yw * yw;
                    let four_av = aw * vw * W::from_digit(4);
                    let want = if type2 { rm::w_from(&n) } else { rm::w_from(&n) * W::from_digit(4) };
                    let ok = if vneg { y2 + four_av == want } else { y2 >= four_av && y2 - four_av == want };
                    t.evals += 1;
                    if !ok {
                        t.bad.push(Bad {
                            key: "sieve=siqs;what=identity".into(),
                            what: format!("{}: y^2 - 4A*P({}) != {} (y={}, P={})", ctxs(), x, want, y, v),
                        });
                        break;
                    }
                    // the value must match the coefficients
                    let xx = I256::from(x);
                    let direct = if type2 { (pa * xx + pb) * xx + pc } else { (pa * xx + pb * I256::from(2)) * xx + pc };
                    if direct != v {
                        t.bad.push(Bad {
                            key: "sieve=siqs;what=eval".into(),
                            what: format!("{}: eval({}) = {} but coefficients give {}", ctxs(), x, v, direct),
                        });
                        break;
                    }
                }
                if pa != I256::cast_from(aval) {
                    t.bad.push(Bad {
                        key: "sieve=siqs;what=leading".into(),
                        what: format!("{}: leading coefficient {} != A {}", ctxs(), pa, aval),
                    });
                }
                // (ii) root tables for every factor base prime
                let (r1p, r2p) = siqs::verif_access::poly_roots(&pol);
                for i in 0..fb.len() {
                    let p = fb.p(i) as u64;
                    let (am, bm, cm) = (imod(&pa, p), imod(&pb, p), imod(&pc, p));
                    let sm = (start.rem_euclid(p as i64)) as u64;
                    let evalp = |x: u64| -> u64 {
                        let xx = (x + sm) % p;
                        let lin = if type2 { bm } else { 2 * bm % p };
                        (mulmod((mulmod(am, xx, p) + lin) % p, xx, p) + cm) % p
                    };
                    let linear = am == 0;
                    let degenerate = fb.r(i) == 0; // p divides kn: double root
                    let c2 = || format!("{} prime #{}", ctxs(), i);
                    t.evals += check_roots(p, r1p[i] as u64, r2p[i] as u64, &evalp, linear, degenerate, "siqs", &c2, &mut t.bad);
                    if t.bad.len() > 6 {
                        return;
                    }
                }
            }
        }
    });
    if let Err(p) = r {
        t.bad.push(Bad {
            key: format!("sieve=siqs;what=panic;site={}", p.site),
            what: format!("siqs polynomial walk for n={} k={}: panic {}", n0, k, p.short()),
        });
    }
    t
}

fn mpqs_modulus(n0: &Uint, use_mult: bool, npolys: usize) -> Tally {
    let mut t = Tally {
        evals: 0,
        polys: 0,
        nexts: 0,
        bad: vec![],
    };
    let k = if use_mult { fbase::select_multiplier(*n0).0 } else { 1 };
    let n = *n0 * Uint::from_digit(k as u64);
    if n.bits() > 448 {
        return t;
    }
    let r = guarded(|| {
        let use_double = n.bits() > 224;
        let fbsz = yamaquasi::params::mpqs_fb_size(n0.bits(), use_double);
        let fb = FBase::new(Int::cast_from(n), fbsz);
        let (mm, _, _) = mpqs::verif_access::params(&n);
        // same target as mpqs()
        let a_target: Uint = if n.digits()[0] % 4 == 1 {
            yamaquasi::arith::isqrt(n >> 1) / Uint::from_digit(mm as u64 / 2)
        } else {
            yamaquasi::arith::isqrt(n << 1) / Uint::from_digit(mm as u64 / 2)
        };
        let d_target = std::cmp::max(Uint::from_digit(3), yamaquasi::arith::isqrt(a_target));
        let d_target = u128::cast_from(d_target);
        // the first block of D values exactly as mpqs() enumerates it
        let dbits = 128 - d_target.leading_zeros();
        let polystride: u128 = match n.bits() {
            0..=32 => 200,
            33..=256 => (50 * 20 / 7 * dbits) as u128,
            _ => (200 * 20 / 7 * dbits) as u128,
        };
        let mut polybase = d_target;
        if polybase >= 20 {
            polybase -= std::cmp::min(polybase / 10, polystride);
        }
        let drs = mpqs::sieve_for_polys(&n, polybase, polystride as usize);
        let mut drs: Vec<(u128, Uint)> = drs.into_iter().take(npolys).collect();
        // D is only required to pass a pseudo-square-root test, so composite D without factors
        // below 200 are accepted by design: every product of two primes in (200, 620) that is
        // 3 mod 4 with D^2 < n is offered to the real selection test (width-1 window)
        {
            let ps: Vec<u64> = rm::primes_below(620).into_iter().filter(|&p| p > 200).collect();
            let mut accepted = 0;
            'comp: for (i, &p) in ps.iter().enumerate() {
                for &q in &ps[i + 1..] {
                    let d = (p * q) as u128;
                    // D^2 < n and C = (B^2 - n)/D^2 within the 256 bits the polynomial stores
                    if d % 4 != 3 || rm::W::from_digit((d * d) as u64) >= rm::w_from(&n) >> 2u32 || n.bits() > 230 {
                        continue;
                    }
                    let got = mpqs::sieve_for_polys(&n, d, 1);
                    if !got.is_empty() {
                        drs.extend(got);
                        accepted += 1;
                        if accepted >= 24 {
                            break 'comp;
                        }
                    }
                }
            }
        }
        let start = -(mm / 2);
        let nw = rm::w_from(&n);
        for (d, r) in drs.into_iter() {
            t.polys += 1;
            let pol = mpqs::make_poly(&n, d, &r);
            let ctxs = || format!("mpqs n={} k={} D={}", n0, k, d);
            // identity: y^2 = P(x) mod n at three points (a quadratic identity mod an odd n)
            for x in [-1i64, 0, 1] {
                let (v, y) = pol.eval(x);
                let yw = rm::w_from(&y) % nw;
                let lhs = rm::w_mulmod(&yw, &yw, &nw);
                let vabs = rm::w_from(&Uint::cast_from(v.unsigned_abs())) % nw;
                let want = if v.is_negative() { (nw - vabs) % nw } else { vabs };
                t.evals += 1;
                if lhs != want {
                    t.bad.push(Bad {
                        key: "sieve=mpqs;what=identity".into(),
                        what: format!("{}: y^2 != P({}) mod n (P = {})", ctxs(), x, v),
                    });
                    break;
                }
            }
            // coefficients for value tables: P(x) = a x^2 + b x + c; c is private: P(0)
            let c = pol.eval(0).0;
            let a = I256::cast_from(pol.a);
            let b = I256::cast_from(pol.b);
            // consistency of eval with (a, b, c)
            let v1 = pol.eval(1).0;
            if v1 != a + b + c {
                t.bad.push(Bad {
                    key: "sieve=mpqs;what=eval".into(),
                    what: format!("{}: P(1) = {} but a+b+c = {}", ctxs(), v1, a + b + c),
                });
            }
            for i in 0..fb.len() {
                let p = fb.p(i) as u64;
                let div: &Dividers = fb.div(i);
                let inv = Inverter::new(p as u32);
                // reference inverse of D mod p (0 if p | D)
                let dm = (d % p as u128) as u64;
                let dinv = if dm == 0 {
                    0
                } else {
                    let mut r = 1u64;
                    let mut bb = dm;
                    let mut e = p - 2;
                    while e > 0 {
                        if e & 1 == 1 {
                            r = mulmod(r, bb, p);
                        }
                        bb = mulmod(bb, bb, p);
                        e >>= 1;
                    }
                    r
                };
                if p == 2 {
                    continue;
                }
                let (r1, r2) = pol.prepare_prime(p as u32, fb.r(i), div, &inv, dinv as u32, start as i32);
                let (am, bm, cm) = (imod(&a, p), imod(&b, p), imod(&c, p));
                let sm = (start.rem_euclid(p as i64)) as u64;
                let evalp = |x: u64| -> u64 {
                    let xx = (x + sm) % p;
                    (mulmod((mulmod(am, xx, p) + bm) % p, xx, p) + cm) % p
                };
                let c2 = || format!("{} p={} (dinv={})", ctxs(), p, dinv);
                t.evals += check_roots(p, r1 as u64, r2 as u64, &evalp, am == 0, fb.r(i) == 0, "mpqs", &c2, &mut t.bad);
                if t.bad.len() > 6 {
                    return;
                }
            }
        }
    });
    if let Err(p) = r {
        t.bad.push(Bad {
            key: format!("sieve=mpqs;what=panic;site={}", p.site),
            what: format!("mpqs polynomials for n={} k={}: panic {}", n0, k, p.short()),
        });
    }
    t
}

fn qs_modulus(n0: &Uint, use_mult: bool) -> Tally {
    let mut t = Tally {
        evals: 0,
        polys: 0,
        nexts: 0,
        bad: vec![],
    };
    let k = if use_mult { fbase::select_multiplier(*n0).0 } else { 1 };
    let n = *n0 * Uint::from_digit(k as u64);
    if n.bits() > 400 {
        return t;
    }
    let r = guarded(|| {
        let fbsz = yamaquasi::params::qs_fb_size(n0.bits(), n.bits() > 200);
        let fb = FBase::new(Int::cast_from(n), fbsz);
        let qs = qsieve::SieveQS::new(n, &fb, fb.bound() as u64, false);
        let (nsqrt, only_odds, nblocks) = qsieve::verif_access::sieve_params(&qs);
        t.polys += 1;
        let lg = (nblocks * 32768) as u64;
        for i in 0..fb.len() {
            let p = fb.p(i) as u64;
            let (f1, f2) = qsieve::verif_access::prepare_prime_fwd(&qs, i);
            let (b1, b2) = qsieve::verif_access::prepare_prime_bck(&qs, i);
            let nm = umod(&n, p);
            let rm_ = imod(&nsqrt, p);
            let step = if only_odds { 2 } else { 1 };
            // forward: (R + step*x)^2 - n ; backward: (R - step*(x+1))^2 - n
            let fwd = |x: u64| -> u64 {
                let y = (rm_ + step * (x % p)) % p;
                (mulmod(y, y, p) + p - nm) % p
            };
            let bck = |x: u64| -> u64 {
                let y = (rm_ + p * step - (step * ((x + 1) % p)) % p) % p;
                let y = y % p;
                (mulmod(y, y, p) + p - nm) % p
            };
            let degenerate = fb.r(i) == 0;
            let cf = || format!("qs forward n={} k={} prime #{} only_odds={}", n0, k, i, only_odds);
            let cb = || format!("qs backward n={} k={} prime #{} only_odds={}", n0, k, i, only_odds);
            if p == 2 && only_odds {
                continue; // documented superset (0,1)
            }
            t.evals += check_roots(p, f1 as u64, f2 as u64, &fwd, false, degenerate, "qs", &cf, &mut t.bad);
            t.evals += check_roots(p, b1 as u64, b2 as u64, &bck, false, degenerate, "qs", &cb, &mut t.bad);
            // after j large blocks the code shifts roots by -(large block size): emulate with the
            // reference and check the shifted polynomial still vanishes there
            for j in [1u64, 2, 17] {
                let o = (lg % p) * (j % p) % p;
                let sh = |r: u32| -> u64 { (r as u64 + p - o) % p };
                let fwd_j = |x: u64| -> u64 { fwd((x + (lg % p) * (j % p)) % p) };
                if p != 2 && (fwd_j(sh(f1)) != 0 || fwd_j(sh(f2)) != 0) {
                    t.bad.push(Bad {
                        key: "sieve=qs;what=shift".into(),
                        what: format!("{}: shifted roots after {} large blocks are not roots", cf(), j),
                    });
                }
            }
            if t.bad.len() > 6 {
                return;
            }
        }
    });
    if let Err(p) = r {
        t.bad.push(Bad {
            key: format!("sieve=qs;what=panic;site={}", p.site),
            what: format!("qs roots for n={} k={}: panic {}", n0, k, p.short()),
        });
    }
    t
}

/// History part for the classical sieve. The real `qsieve()` is run single-threaded (stopped by
/// the abort predicate after `max_lg` large blocks) and the root tables it installs after each
/// large-block shift are observed through the hook: after j shifts they must hold exactly the
/// roots of the polynomial on the j-th large block, forward and backward, for every base prime.
static QS_HISTORY_PANICS: std::sync::atomic::AtomicU64 = std::sync::atomic::AtomicU64::new(0);

fn qs_history(n0: &Uint, use_mult: bool, max_lg: u64) -> Tally {
    use std::cell::RefCell;
    use std::rc::Rc;
    use std::sync::atomic::{AtomicU64, Ordering};
    use std::sync::Arc;
    let mut t = Tally {
        evals: 0,
        polys: 0,
        nexts: 0,
        bad: vec![],
    };
    let k = if use_mult { fbase::select_multiplier(*n0).0 } else { 1 };
    let n = *n0 * Uint::from_digit(k as u64);
    if n.bits() > 400 || n0.bits() < 40 {
        return t;
    }
    type Obs = Vec<(bool, Vec<u32>, Vec<u32>)>;
    let obs: Rc<RefCell<Obs>> = Default::default();
    let r = guarded(|| {
        let o2 = obs.clone();
        qsieve::verif_access::ROOTS_OBSERVER.with(|o| {
            *o.borrow_mut() = Some(Box::new(move |bck: bool, r1: &[u32], r2: &[u32]| {
                if o2.borrow().len() < 64 {
                    o2.borrow_mut().push((bck, r1.to_vec(), r2.to_vec()))
                }
            }))
        });
        let mut prefs = Preferences::default();
        prefs.verbosity = Verbosity::Silent;
        let polls = Arc::new(AtomicU64::new(0));
        prefs.should_abort = Some(Box::new(move || polls.fetch_add(1, Ordering::SeqCst) + 1 >= max_lg));
        let _ = qsieve::qsieve(*n0, k, &prefs, None);
    });
    qsieve::verif_access::ROOTS_OBSERVER.with(|o| *o.borrow_mut() = None);
    if let Err(p) = r {
        // a crash of the sieve itself is C03's clause (its fbase-divisor and corpus families drive
        // qsieve through factor()); here it only means that no table could be observed
        QS_HISTORY_PANICS.fetch_add(1, std::sync::atomic::Ordering::SeqCst);
        eprintln!("note: qsieve({}, k={}) panicked during the history run (not judged by C12): {}", n0, k, p.short());
        return t;
    }
    let r = guarded(|| {
        let fbsz = yamaquasi::params::qs_fb_size(n0.bits(), n.bits() > 200);
        let fb = FBase::new(Int::cast_from(n), fbsz);
        let qs = qsieve::SieveQS::new(n, &fb, fb.bound() as u64, false);
        let (nsqrt, only_odds, nblocks) = qsieve::verif_access::sieve_params(&qs);
        let lg = (nblocks * 32768) as u64;
        let mut cnt = [0u64; 2];
        for (bck, r1, r2) in obs.borrow().iter() {
            cnt[*bck as usize] += 1;
            let j = cnt[*bck as usize];
            t.polys += 1;
            t.nexts += 1;
            if r1.len() != fb.len() || r2.len() != fb.len() {
                t.bad.push(Bad {
                    key: "sieve=qs-history;what=table-length".into(),
                    what: format!("qsieve({}, k={}): observed tables of {} primes, reconstructed base has {}", n0, k, r1.len(), fb.len()),
                });
                return;
            }
            for i in 0..fb.len() {
                let p = fb.p(i) as u64;
                if p == 2 && only_odds {
                    continue; // documented superset (0,1)
                }
                let nm = umod(&n, p);
                let rm_ = imod(&nsqrt, p);
                let step = if only_odds { 2 } else { 1 };
                let off = (lg % p) * (j % p) % p;
                let bck = *bck;
                let eval = |x: u64| -> u64 {
                    let xx = (x % p + off) % p;
                    let y = if !bck { (rm_ + step * xx) % p } else { (rm_ + p * step - (step * ((xx + 1) % p)) % p) % p };
                    (mulmod(y, y, p) + p - nm) % p
                };
                let degenerate = fb.r(i) == 0;
                let cx = || format!("qsieve n={} k={} {} table after {} large-block shifts, prime #{} only_odds={}", n0, k, if bck { "backward" } else { "forward" }, j, i, only_odds);
                t.evals += check_roots(p, r1[i] as u64, r2[i] as u64, &eval, false, degenerate, "qs-history", &cx, &mut t.bad);
                if t.bad.len() > 6 {
                    return;
                }
            }
        }
    });
    if let Err(p) = r {
        t.bad.push(Bad {
            key: format!("sieve=qs-history;what=panic;site={}", p.site),
            what: format!("reference for qsieve({}, k={}): panic {}", n0, k, p.short()),
        });
    }
    t
}

fn fbase_check(n0: &Uint, t: &mut Tally) {
    for sz in [8u32, 64, 100, 1000] {
        let fb = FBase::new(Int::cast_from(*n0), sz);
        t.evals += fb.len() as u64;
        if fb.len() % 8 != 0 || fb.len() == 0 {
            t.bad.push(Bad {
                key: "fbase;what=length".into(),
                what: format!("FBase::new({}, {}) has length {}", n0, sz, fb.len()),
            });
        }
        for i in 0..fb.len() {
            let p = fb.p(i) as u64;
            let r = fb.r(i) as u64;
            let nm = (rm::w_from(n0) % W::from_digit(p)).digits()[0];
            if mulmod(r, r, p) != nm || !rm::is_prime_u64(p) || fb.idx(p as u32) != Some(i) {
                t.bad.push(Bad {
                    key: "fbase;what=sqrt".into(),
                    what: format!("FBase::new({}, {}): prime #{} = {} with root {} (n mod p = {})", n0, sz, i, p, r, nm),
                });
                return;
            }
        }
    }
}

pub fn run(ctx: &Ctx) -> Report {
    let mut rep = Report::new("model_checking");
    let sizes: Vec<u32> = if ctx.quick() {
        let mut v: Vec<u32> = (20..=64).step_by(4).collect();
        v.extend((72..=160).step_by(8));
        v
    } else {
        let mut v: Vec<u32> = (20..=64).step_by(4).collect();
        v.extend((72..=160).step_by(8));
        v.extend([192, 224, 256, 320]);
        v
    };
    let ms = moduli(&sizes);
    let max_polys = ctx.pick(256usize, 4096);
    let na = ctx.pick(2usize, 3);
    let mpolys = ctx.pick(12usize, 40);
    let qs_hist_max: u32 = ctx.pick(160, 256);
    let jobs: Vec<(usize, bool)> = (0..ms.len()).flat_map(|i| [(i, false), (i, true)]).collect();
    let res: Vec<(Tally, Tally, Tally)> = jobs
        .par_iter()
        .map(|&(i, mult)| {
            let n = &ms[i];
            let mut s = siqs_modulus(n, mult, max_polys, na);
            if !mult {
                fbase_check(n, &mut s);
            }
            let m = mpqs_modulus(n, mult, mpolys);
            let mut q = qs_modulus(n, mult);
            // classical sieve history: the real qsieve() over its first large blocks
            if n.bits() >= 40 && n.bits() <= qs_hist_max {
                let h = qs_history(n, mult, 5);
                q.evals += h.evals;
                q.polys += h.polys;
                q.nexts += h.nexts;
                q.bad.extend(h.bad);
            }
            (s, m, q)
        })
        .collect();
    let mut polys = 0;
    let mut nexts = 0;
    for (s, m, q) in res {
        for t in [s, m, q] {
            rep.evaluations += t.evals;
            polys += t.polys;
            nexts += t.nexts;
            for b in t.bad.into_iter().take(4) {
                rep.violation(b.key, b.what.clone(), J::obj(vec![("case", J::s(b.what))]));
            }
        }
    }
    rep.states = polys;
    rep.transitions = nexts.max(1);
    rep.traces = jobs.len() as u64 * 3;
    rep.nontrivial = polys;
    rep.set("moduli", J::from(ms.len()));
    rep.set("polynomials", J::from(polys));
    rep.set("gray_code_steps", J::from(nexts));
    rep.set("qsieve_history_runs_that_panicked_not_judged_here", J::from(QS_HISTORY_PANICS.load(std::sync::atomic::Ordering::SeqCst)));
    rep.sample(J::obj(vec![("n", J::s(ms[ms.len() - 1])), ("bits", J::from(ms[ms.len() - 1].bits())), ("multiplier", J::s("1 and select_multiplier(n)"))]));
    rep.sample(J::obj(vec![("n", J::s(ms[0])), ("bits", J::from(ms[0].bits()))]));
    rep.sample(J::obj(vec![("walk", J::s("Poly::first, then next() x (2^(nfacs-1) - 1) (capped)")), ("cap", J::from(max_polys))]));
    rep.rule = format!("moduli: for each size in {:?} and each class 1,3,5,7 mod 8 the first integer >= 2^(b-1) without prime factors below 1000, with multiplier 1 and with select_multiplier's k. SIQS: real parameter functions, real select_siqs_factors/select_a/prepare_a; the first {} and the last A; the whole Gray-code family (capped at {} polynomials) walked through the real Poly::first/next (states = polynomials, transitions = next() calls); at every index: y^2 - 4A*P(x) = n or 4n at x = -1,0,1 (a polynomial identity), eval consistent with (A,B,C), A = product of its primes, and for EVERY factor base prime both stored roots are roots of P(start+x) mod p, below p, distinct when two roots exist, and for p < 4096 the brute-force zero set equals the table exactly (p = 2: superset). MPQS: the first {} D values from the real sieve_for_polys around the real target, make_poly identity y^2 = P(x) mod n at three points and prepare_prime roots for every prime (incl. D inside the factor base). Classical QS: forward/backward root preparation for every prime, both parities, and after 1, 2, 17 large-block shifts (reference shift); history part: the REAL qsieve() is run on every modulus of 40..{} bits (both multipliers) until its 5th large block and the root tables it installs after each large-block shift (observed through hook H6) must hold exactly the roots of the polynomial on that block, forward and backward, for every base prime. FBase::new: r^2 = n mod p, primes, index, length multiple of 8.", sizes, na, max_polys, mpolys, qs_hist_max);
    rep.assumptions.push("reference arithmetic: bnum I256 remainder, u128 modular arithmetic".into());
    rep
}
