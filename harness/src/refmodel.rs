//! Boring reference models, independent of yamaquasi's own arithmetic:
//! only `u128` native ops and bnum's plain `* / %` are used.

use bnum::BUint;

/// Wide reference integer (2560 bits): holds products of two 1024-bit values.
pub type W = BUint<40>;
pub type U1024 = BUint<16>;

pub fn w_from<const N: usize>(x: &BUint<N>) -> W {
    let mut d = [0u64; 40];
    let xd = x.digits();
    for i in 0..N.min(40) {
        d[i] = xd[i];
    }
    for i in 40..N {
        assert_eq!(xd[i], 0);
    }
    W::from_digits(d)
}

pub fn w_to<const N: usize>(x: &W) -> BUint<N> {
    let mut d = [0u64; N];
    let xd = x.digits();
    for i in 0..40 {
        if i < N {
            d[i] = xd[i];
        } else {
            assert_eq!(xd[i], 0, "w_to overflow");
        }
    }
    BUint::<N>::from_digits(d)
}

pub fn w_u64(x: u64) -> W {
    W::from_digit(x)
}

pub fn w_mulmod(a: &W, b: &W, n: &W) -> W {
    (*a * *b) % *n
}

pub fn w_powmod(a: &W, e: &W, n: &W) -> W {
    let mut res = W::ONE % *n;
    let mut x = *a % *n;
    let bits = e.bits();
    for i in 0..bits {
        if e.bit(i) {
            res = w_mulmod(&res, &x, n);
        }
        x = w_mulmod(&x, &x, n);
    }
    res
}

pub fn w_gcd(a: &W, b: &W) -> W {
    let (mut a, mut b) = (*a, *b);
    while !b.is_zero() {
        let r = a % b;
        a = b;
        b = r;
    }
    a
}

// ------------------------------------------------------------ primes

/// Plain sieve of Eratosthenes: all primes < limit.
pub fn primes_below(limit: u64) -> Vec<u64> {
    let limit = limit as usize;
    if limit < 3 {
        return vec![];
    }
    let mut comp = vec![false; limit];
    let mut out = vec![];
    let mut i = 2usize;
    while i < limit {
        if !comp[i] {
            out.push(i as u64);
            let mut j = i * i;
            while j < limit {
                comp[j] = true;
                j += i;
            }
        }
        i += 1;
    }
    out
}

/// Bit table of odd primality below `limit` (bit k <=> 2k+1 prime, k>=1).
pub struct OddSieve {
    pub limit: u64,
    bits: Vec<u64>,
}

impl OddSieve {
    pub fn new(limit: u64) -> OddSieve {
        let half = (limit / 2 + 1) as usize;
        let mut bits = vec![!0u64; half / 64 + 1];
        // 1 is not prime
        bits[0] &= !1;
        let mut i = 1usize; // represents 3
        while (2 * i + 1) * (2 * i + 1) < limit as usize {
            if bits[i / 64] >> (i % 64) & 1 == 1 {
                let p = 2 * i + 1;
                let mut j = (p * p) / 2;
                while j < half {
                    bits[j / 64] &= !(1 << (j % 64));
                    j += p;
                }
            }
            i += 1;
        }
        OddSieve { limit, bits }
    }
    pub fn is_prime(&self, n: u64) -> bool {
        assert!(n < self.limit);
        if n == 2 {
            return true;
        }
        if n < 2 || n % 2 == 0 {
            return false;
        }
        let k = (n / 2) as usize;
        self.bits[k / 64] >> (k % 64) & 1 == 1
    }
}

fn mulmod64(a: u64, b: u64, n: u64) -> u64 {
    ((a as u128 * b as u128) % (n as u128)) as u64
}

fn powmod64(mut a: u64, mut e: u64, n: u64) -> u64 {
    let mut r = 1 % n;
    a %= n;
    while e > 0 {
        if e & 1 == 1 {
            r = mulmod64(r, a, n);
        }
        a = mulmod64(a, a, n);
        e >>= 1;
    }
    r
}

/// Is n a strong probable prime to base b (n odd > 2, b arbitrary)?
pub fn sprp64(n: u64, b: u64) -> bool {
    let b = b % n;
    if b == 0 {
        return true;
    }
    let tz = (n - 1).trailing_zeros();
    let d = (n - 1) >> tz;
    let mut x = powmod64(b, d, n);
    if x == 1 || x == n - 1 {
        return true;
    }
    for _ in 1..tz {
        x = mulmod64(x, x, n);
        if x == n - 1 {
            return true;
        }
        if x == 1 {
            return false;
        }
    }
    false
}

const SMALLP: [u64; 25] = [
    2, 3, 5, 7, 11, 13, 17, 19, 23, 29, 31, 37, 41, 43, 47, 53, 59, 61, 67, 71, 73, 79, 83, 89, 97,
];

/// Exact primality for u64: trial division by primes < 100, then Miller-Rabin
/// to the first 12 prime bases (proven deterministic below 3.18e23 by
/// Sorenson & Webster), plain u128 `%` arithmetic.
pub fn is_prime_u64(n: u64) -> bool {
    if n < 2 {
        return false;
    }
    for &p in &SMALLP {
        if n == p {
            return true;
        }
        if n % p == 0 {
            return false;
        }
    }
    if n < 97 * 97 {
        return true;
    }
    for &b in &SMALLP[..12] {
        if !sprp64(n, b) {
            return false;
        }
    }
    true
}

fn w_jacobi(a: i64, n: &W) -> i32 {
    // Jacobi symbol (a/n) for odd n, small a (reference via residues).
    let mut n = *n;
    let mut res = 1i32;
    let mut a_w: W;
    if a < 0 {
        // (-1/n)
        if n.digits()[0] % 4 == 3 {
            res = -res;
        }
        a_w = W::from_digit((-a) as u64) % n;
    } else {
        a_w = W::from_digit(a as u64) % n;
    }
    loop {
        if a_w.is_zero() {
            return if n == W::ONE { res } else { 0 };
        }
        let tz = a_w.trailing_zeros();
        a_w = a_w >> tz;
        if tz % 2 == 1 {
            let m = n.digits()[0] % 8;
            if m == 3 || m == 5 {
                res = -res;
            }
        }
        if a_w.digits()[0] % 4 == 3 && n.digits()[0] % 4 == 3 {
            res = -res;
        }
        let t = n % a_w;
        n = a_w;
        a_w = t;
    }
}

fn w_is_square(n: &W) -> bool {
    if n.is_zero() {
        return true;
    }
    // Newton isqrt
    let bits = n.bits();
    let mut x = W::ONE << ((bits + 1) / 2);
    loop {
        let y = (x + *n / x) >> 1;
        if y >= x {
            break;
        }
        x = y;
    }
    x * x == *n
}

/// Strong Lucas probable prime test (Selfridge parameters) on W.
fn strong_lucas(n: &W) -> bool {
    if w_is_square(n) {
        return false;
    }
    // find D in 5, -7, 9, -11, ... with (D/n) = -1
    let mut d: i64 = 5;
    loop {
        let j = w_jacobi(d, n);
        if j == -1 {
            break;
        }
        if j == 0 {
            let ad = W::from_digit(d.unsigned_abs());
            if ad % *n != W::ZERO {
                return false;
            }
        }
        d = if d > 0 { -(d + 2) } else { -(d - 2) };
        if d.abs() > 100000 {
            return false;
        }
    }
    // P = 1, Q = (1 - D)/4
    let q: i64 = (1 - d) / 4;
    let nn = *n;
    let modp = |x: i64| -> W {
        if x >= 0 {
            W::from_digit(x as u64) % nn
        } else {
            (nn - W::from_digit((-x) as u64) % nn) % nn
        }
    };
    let qm = modp(q);
    let dm = modp(d);
    let np1 = nn + W::ONE;
    let s = np1.trailing_zeros();
    let dd = np1 >> s;
    // Compute U_dd, V_dd via binary ladder
    let half = |x: W| -> W {
        if x.bit(0) {
            (x + nn) >> 1
        } else {
            x >> 1
        }
    };
    let mut u = W::ONE;
    let mut v = W::ONE; // P = 1
    let mut qk = qm;
    let bits = dd.bits();
    for i in (0..bits - 1).rev() {
        // double
        u = w_mulmod(&u, &v, &nn);
        v = (w_mulmod(&v, &v, &nn) + nn + nn - (qk + qk) % nn) % nn;
        qk = w_mulmod(&qk, &qk, &nn);
        if dd.bit(i) {
            // increment: U' = (P U + V)/2, V' = (D U + P V)/2
            let u2 = half((u + v) % nn);
            let v2 = half((w_mulmod(&dm, &u, &nn) + v) % nn);
            u = u2;
            v = v2;
            qk = w_mulmod(&qk, &qm, &nn);
        }
    }
    if u.is_zero() || v.is_zero() {
        return true;
    }
    for _ in 1..s {
        v = (w_mulmod(&v, &v, &nn) + nn + nn - (qk + qk) % nn) % nn;
        qk = w_mulmod(&qk, &qk, &nn);
        if v.is_zero() {
            return true;
        }
    }
    false
}

/// Reference primality for multiword integers: trial division by primes
/// below 2^12, Miller-Rabin to the first 24 prime bases, strong Lucas test.
pub fn is_prime_w(n: &W) -> bool {
    if n.bits() <= 64 {
        return is_prime_u64(n.digits()[0]);
    }
    thread_local! {
        static SMALL: Vec<u64> = primes_below(4096);
    }
    let divisible = SMALL.with(|s| {
        for &p in s.iter() {
            if (*n % W::from_digit(p)).is_zero() {
                return true;
            }
        }
        false
    });
    if divisible {
        return false;
    }
    let nm1 = *n - W::ONE;
    let tz = nm1.trailing_zeros();
    let d = nm1 >> tz;
    let bases = SMALL.with(|s| s[..24].to_vec());
    for b in bases {
        let mut x = w_powmod(&W::from_digit(b), &d, n);
        if x == W::ONE || x == nm1 {
            continue;
        }
        let mut ok = false;
        for _ in 1..tz {
            x = w_mulmod(&x, &x, n);
            if x == nm1 {
                ok = true;
                break;
            }
            if x == W::ONE {
                break;
            }
        }
        if !ok {
            return false;
        }
    }
    strong_lucas(n)
}

pub fn is_prime_uint(n: &U1024) -> bool {
    is_prime_w(&w_from(n))
}

/// Next prime >= n (reference test).
pub fn next_prime_u64(mut n: u64) -> u64 {
    if n <= 2 {
        return 2;
    }
    if n % 2 == 0 {
        n += 1;
    }
    while !is_prime_u64(n) {
        n += 2;
    }
    n
}

pub fn prev_prime_u64(mut n: u64) -> u64 {
    assert!(n >= 2);
    if n == 2 {
        return 2;
    }
    if n % 2 == 0 {
        n -= 1;
    }
    while !is_prime_u64(n) {
        n -= 2;
    }
    n
}

pub fn next_prime_w(n: &W) -> W {
    let mut n = *n;
    if !n.bit(0) {
        n += W::ONE;
    }
    while !is_prime_w(&n) {
        n += W::TWO;
    }
    n
}

pub fn prev_prime_w(n: &W) -> W {
    let mut n = *n;
    if !n.bit(0) {
        n -= W::ONE;
    }
    while !is_prime_w(&n) {
        n -= W::TWO;
    }
    n
}

/// Trial-division factorization of a u64 (reference; for small values).
pub fn factor_u64(mut n: u64) -> Vec<(u64, u32)> {
    let mut out = vec![];
    let mut p = 2u64;
    while p * p <= n {
        if n % p == 0 {
            let mut e = 0;
            while n % p == 0 {
                n /= p;
                e += 1;
            }
            out.push((p, e));
        }
        p += if p == 2 { 1 } else { 2 };
    }
    if n > 1 {
        out.push((n, 1));
    }
    out
}
