mod c01;
mod c05;
mod c06;
mod c07;
mod c08;
mod c09;
mod c10;
mod c11;
mod c12;
mod c13;
mod c14;
mod c15;
mod c16;
mod c17;
mod c18;
mod c19;
mod c20;
mod common;
mod refmodel;
mod sweep;

use common::*;
use std::path::PathBuf;

fn usage() -> ! {
    eprintln!("usage: ymq-verif <Cxx> [--tier quick|thorough] [--seed N] [--replay path] | sweep-worker <file> <start> | selftest");
    std::process::exit(2)
}

fn main() {
    let args: Vec<String> = std::env::args().skip(1).collect();
    if args.is_empty() {
        usage();
    }
    if args[0] == "c06-probe" {
        std::process::exit(c06::probe_main(&args[1..]));
    }
    if args[0] == "sweep-worker" {
        std::process::exit(sweep::worker_main(&args[1..]));
    }
    let mut tier = match std::env::var("VERIF_TIER").as_deref() {
        Ok("thorough") => Tier::Thorough,
        _ => Tier::Quick,
    };
    let mut seed: u64 = std::env::var("VERIF_SEED")
        .ok()
        .and_then(|s| s.parse().ok())
        .unwrap_or(0);
    let mut replay = None;
    let mut rest = vec![];
    let mut i = 1;
    while i < args.len() {
        match args[i].as_str() {
            "--tier" => {
                i += 1;
                tier = match args.get(i).map(|s| s.as_str()) {
                    Some("quick") => Tier::Quick,
                    Some("thorough") => Tier::Thorough,
                    _ => usage(),
                };
            }
            "--seed" => {
                i += 1;
                seed = args.get(i).and_then(|s| s.parse().ok()).unwrap_or(0);
            }
            "--replay" => {
                i += 1;
                replay = args.get(i).map(PathBuf::from);
            }
            other => rest.push(other.to_string()),
        }
        i += 1;
    }
    let verif_dir = PathBuf::from(std::env::var("VERIF_DIR").unwrap_or_else(|_| "/verif".into()));
    let ctx = Ctx {
        id: args[0].clone(),
        tier,
        seed,
        profile: PROFILE,
        replay,
        verif_dir,
        args: rest,
    };
    install_panic_hook();
    let t0 = now();
    if let Some(path) = ctx.replay.clone() {
        let code = match ctx.id.as_str() {
            "C01" | "C02" | "C03" | "C04" => c01::replay(&ctx, &path),
            "C05" => c05::replay(&ctx, &path),
            "C06" => c06::replay(&ctx, &path),
            "C17" => c17::replay(&ctx, &path),
            "C07" => c07::replay(&ctx, &path),
            "C09" => c09::replay(&ctx, &path),
            _ => {
                eprintln!("no replay for {}", ctx.id);
                2
            }
        };
        std::process::exit(code);
    }
    let rep = match ctx.id.as_str() {
        "C01" => c01::run_c01(&ctx),
        "C02" => c01::run_c02(&ctx),
        "C03" => c01::run_c03(&ctx),
        "C04" => c01::run_c04_supp(&ctx),
        "C05" => c05::run(&ctx),
        "C06" => c06::run(&ctx),
        "C17" => c17::run(&ctx),
        "C20" => c20::run(&ctx),
        "C07" => c07::run(&ctx),
        "C08" => c08::run(&ctx),
        "C09" => c09::run(&ctx),
        "C10" => c10::run(&ctx),
        "C11" => c11::run(&ctx),
        "C12" => c12::run(&ctx),
        "C13" => c13::run(&ctx),
        "C14" => c14::run(&ctx),
        "C15" => c15::run(&ctx),
        "C16" => c16::run(&ctx),
        "C18" => c18::run(&ctx),
        "C19" => c19::run(&ctx),
        _ => usage(),
    };
    let code = finish(&ctx, &rep, t0.elapsed().as_secs_f64());
    std::process::exit(code);
}
