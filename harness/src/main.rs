mod c01;
mod c05;
mod c06;
mod c07;
mod c08;
mod c09;
mod c10;
mod c11;
mod c12;
mod c13;
mod c14;
mod c15;
mod c16;
mod c17;
mod c18;
mod c19;
mod c20;
mod common;
mod refmodel;
mod sweep;

use common::*;
use std::path::PathBuf;

fn usage() -> ! {
    eprintln!("usage: ymq-verif <Cxx> [--tier quick|thorough] [--seed N] [--replay path] | sweep-worker <file> <start> | selftest");
    std::process::exit(2)
}

fn run_property(ctx: &Ctx) -> Option<Report> {
    Some(match ctx.id.as_str() {
        "C01" => c01::run_c01(ctx),
        "C02" => c01::run_c02(ctx),
        "C03" => c01::run_c03(ctx),
        "C04" => c01::run_c04_supp(ctx),
        "C05" => c05::run(ctx),
        "C06" => c06::run(ctx),
        "C17" => c17::run(ctx),
        "C20" => c20::run(ctx),
        "C07" => c07::run(ctx),
        "C08" => c08::run(ctx),
        "C09" => c09::run(ctx),
        "C10" => c10::run(ctx),
        "C11" => c11::run(ctx),
        "C12" => c12::run(ctx),
        "C13" => c13::run(ctx),
        "C14" => c14::run(ctx),
        "C15" => c15::run(ctx),
        "C16" => c16::run(ctx),
        "C18" => c18::run(ctx),
        "C19" => c19::run(ctx),
        _ => return None,
    })
}

/// Replay for the enumerative checks without a dedicated single-case replayer: the enumeration
/// is deterministic, so the recorded violation is re-derived by running the same check (same
/// profile; the tier recorded in the file) and looking for the recorded key. Exit 1 and a
/// VIOLATION line when it occurs again, exit 0 when it does not.
fn generic_replay(ctx: &Ctx, path: &std::path::Path) -> i32 {
    let Ok(s) = std::fs::read_to_string(path) else {
        println!("MACHINERY-ERROR cannot read replay file {}", path.display());
        return 2;
    };
    let field = |k: &str| -> Option<String> {
        let pat = format!("\"{}\":\"", k);
        let i = s.find(&pat)? + pat.len();
        let mut out = String::new();
        let mut esc = false;
        for c in s[i..].chars() {
            if esc {
                out.push(c);
                esc = false;
            } else if c == '\\' {
                esc = true;
            } else if c == '"' {
                break;
            } else {
                out.push(c);
            }
        }
        Some(out)
    };
    let Some(key) = field("key") else {
        println!("MACHINERY-ERROR replay file has no key");
        return 2;
    };
    let mut c2 = Ctx { id: ctx.id.clone(), tier: ctx.tier, seed: ctx.seed, profile: ctx.profile, replay: None, verif_dir: ctx.verif_dir.clone(), args: ctx.args.clone() };
    if let Some(t) = field("tier") {
        c2.tier = if t == "thorough" { Tier::Thorough } else { Tier::Quick };
    }
    let Some(rep) = run_property(&c2) else {
        println!("MACHINERY-ERROR no check for {}", ctx.id);
        return 2;
    };
    if !rep.machinery_errors.is_empty() {
        for m in &rep.machinery_errors {
            println!("MACHINERY-ERROR property={} {}", ctx.id, m);
        }
        return 2;
    }
    let hits: Vec<_> = rep.violations.iter().filter(|v| v.key == key).collect();
    if let Some(v) = hits.first() {
        println!("VIOLATION property={} replay={} :: {} :: {} [reproduced, {} cases with this key]", ctx.id, path.display(), key, v.what, hits.len());
        1
    } else {
        println!("REPLAY property={} key {} did not occur again ({} other violations in this run)", ctx.id, key, rep.violations.len());
        0
    }
}

fn main() {
    let args: Vec<String> = std::env::args().skip(1).collect();
    if args.is_empty() {
        usage();
    }
    if args[0] == "c06-probe" {
        std::process::exit(c06::probe_main(&args[1..]));
    }
    if args[0] == "sweep-worker" {
        std::process::exit(sweep::worker_main(&args[1..]));
    }
    let mut tier = match std::env::var("VERIF_TIER").as_deref() {
        Ok("thorough") => Tier::Thorough,
        _ => Tier::Quick,
    };
    let mut seed: u64 = std::env::var("VERIF_SEED")
        .ok()
        .and_then(|s| s.parse().ok())
        .unwrap_or(0);
    let mut replay = None;
    let mut rest = vec![];
    let mut i = 1;
    while i < args.len() {
        match args[i].as_str() {
            "--tier" => {
                i += 1;
                tier = match args.get(i).map(|s| s.as_str()) {
                    Some("quick") => Tier::Quick,
                    Some("thorough") => Tier::Thorough,
                    _ => usage(),
                };
            }
            "--seed" => {
                i += 1;
                seed = args.get(i).and_then(|s| s.parse().ok()).unwrap_or(0);
            }
            "--replay" => {
                i += 1;
                replay = args.get(i).map(PathBuf::from);
            }
            other => rest.push(other.to_string()),
        }
        i += 1;
    }
    let verif_dir = PathBuf::from(std::env::var("VERIF_DIR").unwrap_or_else(|_| "/verif".into()));
    let ctx = Ctx {
        id: args[0].clone(),
        tier,
        seed,
        profile: PROFILE,
        replay,
        verif_dir,
        args: rest,
    };
    install_panic_hook();
    let t0 = now();
    if let Some(path) = ctx.replay.clone() {
        let code = match ctx.id.as_str() {
            "C01" | "C02" | "C03" | "C04" => c01::replay(&ctx, &path),
            "C05" => c05::replay(&ctx, &path),
            "C06" => c06::replay(&ctx, &path),
            "C17" => c17::replay(&ctx, &path),
            "C07" => c07::replay(&ctx, &path),
            "C09" => c09::replay(&ctx, &path),
            _ => generic_replay(&ctx, &path),
        };
        std::process::exit(code);
    }
    let Some(rep) = run_property(&ctx) else { usage() };
    let code = finish(&ctx, &rep, t0.elapsed().as_secs_f64());
    std::process::exit(code);
}
