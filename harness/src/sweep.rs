//! Subprocess-sharded sweep of `factor()` over explicit case lists
//! (C01, C02, C03): a panic is an observation, a crash/hang kills only the
//! shard and is attributed to the case in progress.

use std::io::{BufRead, BufReader, Write};
use std::process::{Command, Stdio};
use std::str::FromStr;
use std::sync::atomic::{AtomicU64, Ordering};
use std::sync::{Arc, Mutex};
use std::time::{Duration, Instant};

use yamaquasi::{Algo, Preferences, Uint, Verbosity};

use crate::common::*;

pub const ALGOS: [(Algo, &str); 10] = [
    (Algo::Auto, "auto"),
    (Algo::Rho, "rho"),
    (Algo::Squfof, "squfof"),
    (Algo::Qs64, "qs64"),
    (Algo::Pm1, "pm1"),
    (Algo::Ecm, "ecm"),
    (Algo::Ecm128, "ecm128"),
    (Algo::Qs, "qs"),
    (Algo::Mpqs, "mpqs"),
    (Algo::Siqs, "siqs"),
];

pub fn algo_name(a: Algo) -> &'static str {
    ALGOS.iter().find(|(x, _)| *x == a).unwrap().1
}

#[derive(Clone, Debug, Default, PartialEq, Eq)]
pub struct PrefSpec {
    pub threads: Option<usize>,
    pub fb_size: Option<u32>,
    pub large_factor: Option<u64>,
    pub use_double: Option<bool>,
    pub interval_size: Option<u32>,
    /// abort predicate returns true from its k-th call on (0-based)
    pub abort_after: Option<u64>,
}

fn opt<T: ToString>(x: &Option<T>) -> String {
    match x {
        None => "-".into(),
        Some(v) => v.to_string(),
    }
}
fn unopt<T: FromStr>(s: &str) -> Option<T> {
    if s == "-" {
        None
    } else {
        s.parse().ok()
    }
}

impl PrefSpec {
    pub fn encode(&self) -> String {
        format!(
            "{},{},{},{},{},{}",
            opt(&self.threads),
            opt(&self.fb_size),
            opt(&self.large_factor),
            opt(&self.use_double),
            opt(&self.interval_size),
            opt(&self.abort_after)
        )
    }
    pub fn decode(s: &str) -> PrefSpec {
        let v: Vec<&str> = s.split(',').collect();
        PrefSpec {
            threads: unopt(v[0]),
            fb_size: unopt(v[1]),
            large_factor: unopt(v[2]),
            use_double: unopt(v[3]),
            interval_size: unopt(v[4]),
            abort_after: unopt(v[5]),
        }
    }
    pub fn is_default(&self) -> bool {
        *self == PrefSpec::default()
    }
    /// Build real preferences; returns the poll counter.
    pub fn build(&self) -> (Preferences, Arc<AtomicU64>) {
        let mut p = Preferences::default();
        p.verbosity = Verbosity::Silent;
        p.threads = self.threads;
        p.fb_size = self.fb_size;
        p.large_factor = self.large_factor;
        p.use_double = self.use_double;
        p.interval_size = self.interval_size;
        let polls = Arc::new(AtomicU64::new(0));
        if let Some(k) = self.abort_after {
            let c = polls.clone();
            p.should_abort = Some(Box::new(move || c.fetch_add(1, Ordering::SeqCst) >= k));
        }
        (p, polls)
    }
}

#[derive(Clone, Debug)]
pub struct Case {
    pub n: Uint,
    pub algo: Algo,
    pub prefs: PrefSpec,
    /// free-form family tag (no '|' or newline)
    pub tag: String,
}

impl Case {
    pub fn new(n: Uint, algo: Algo, tag: &str) -> Case {
        Case {
            n,
            algo,
            prefs: PrefSpec::default(),
            tag: tag.to_string(),
        }
    }
    pub fn encode(&self) -> String {
        format!(
            "{}|{}|{}|{}",
            self.n,
            algo_name(self.algo),
            self.prefs.encode(),
            self.tag
        )
    }
    pub fn decode(s: &str) -> Case {
        let v: Vec<&str> = s.splitn(4, '|').collect();
        Case {
            n: Uint::from_str(v[0]).unwrap(),
            algo: Algo::from_str(v[1]).unwrap(),
            prefs: PrefSpec::decode(v[2]),
            tag: v[3].to_string(),
        }
    }
    pub fn json(&self) -> J {
        J::obj(vec![
            ("n", J::s(self.n)),
            ("algo", J::s(algo_name(self.algo))),
            ("prefs", J::s(self.prefs.encode())),
            ("tag", J::s(&self.tag)),
        ])
    }
}

#[derive(Clone, Debug)]
pub enum Outcome {
    Ok(Vec<Uint>),
    Err,
    Panic { site: String, msg: String },
    Hang,
    Crash(String),
}

#[derive(Clone, Debug)]
pub struct CaseResult {
    pub outcome: Outcome,
    pub micros: u64,
    pub polls: u64,
}

/// Execute one case in-process (panics are caught).
pub fn run_case(c: &Case) -> CaseResult {
    let (prefs, polls) = c.prefs.build();
    let t = Instant::now();
    let r = guarded(|| yamaquasi::factor(c.n, c.algo, &prefs));
    let micros = t.elapsed().as_micros() as u64;
    let outcome = match r {
        Ok(Ok(v)) => Outcome::Ok(v),
        Ok(Err(_)) => Outcome::Err,
        Err(p) => Outcome::Panic {
            site: p.site,
            msg: p.msg,
        },
    };
    CaseResult {
        outcome,
        micros,
        polls: polls.load(Ordering::SeqCst),
    }
}

fn encode_result(r: &CaseResult) -> String {
    let o = match &r.outcome {
        Outcome::Ok(v) => format!(
            "ok {}",
            v.iter().map(|x| x.to_string()).collect::<Vec<_>>().join(",")
        ),
        Outcome::Err => "err".to_string(),
        Outcome::Panic { site, msg } => {
            let m: String = msg.replace('\n', " ").chars().take(300).collect();
            format!("panic {} {}", site, m)
        }
        Outcome::Hang => "hang".into(),
        Outcome::Crash(s) => format!("crash {}", s),
    };
    format!("{} {} {}", r.micros, r.polls, o)
}

fn decode_result(s: &str) -> CaseResult {
    let mut it = s.splitn(3, ' ');
    let micros = it.next().unwrap().parse().unwrap();
    let polls = it.next().unwrap().parse().unwrap();
    let rest = it.next().unwrap_or("");
    let outcome = if let Some(l) = rest.strip_prefix("ok") {
        let l = l.trim();
        if l.is_empty() {
            Outcome::Ok(vec![])
        } else {
            Outcome::Ok(l.split(',').map(|x| Uint::from_str(x).unwrap()).collect())
        }
    } else if rest == "err" {
        Outcome::Err
    } else if let Some(l) = rest.strip_prefix("panic ") {
        let mut p = l.splitn(2, ' ');
        Outcome::Panic {
            site: p.next().unwrap_or("?").to_string(),
            msg: p.next().unwrap_or("").to_string(),
        }
    } else if rest == "hang" {
        Outcome::Hang
    } else {
        Outcome::Crash(rest.to_string())
    };
    CaseResult {
        outcome,
        micros,
        polls,
    }
}

/// Worker entry: `sweep-worker <casefile> <start>`; protocol on stdout:
/// `S <idx>` before each case, `R <idx> <result>` after.
pub fn worker_main(args: &[String]) -> i32 {
    let file = &args[0];
    let start: usize = args[1].parse().unwrap();
    let content = std::fs::read_to_string(file).expect("case file");
    let stdout = std::io::stdout();
    for (i, line) in content.lines().enumerate() {
        if i < start || line.is_empty() {
            continue;
        }
        let c = Case::decode(line);
        {
            let mut o = stdout.lock();
            let _ = writeln!(o, "S {}", i);
            let _ = o.flush();
        }
        let r = run_case(&c);
        {
            let mut o = stdout.lock();
            let _ = writeln!(o, "R {} {}", i, encode_result(&r));
            let _ = o.flush();
        }
    }
    0
}

pub struct SweepCfg {
    pub shards: usize,
    pub case_timeout: Duration,
}

/// Run all cases in subprocess shards. Result i corresponds to case i.
pub fn run_sweep(ctx: &Ctx, cases: &[Case], cfg: &SweepCfg) -> Vec<CaseResult> {
    let exe = std::env::current_exe().expect("current_exe");
    let tmpdir = ctx.verif_dir.join(".scratch");
    let _ = std::fs::create_dir_all(&tmpdir);
    let shards = cfg.shards.max(1).min(cases.len().max(1));
    // round-robin assignment balances families across shards
    let mut shard_cases: Vec<Vec<usize>> = vec![vec![]; shards];
    for i in 0..cases.len() {
        shard_cases[i % shards].push(i);
    }
    let results: Arc<Mutex<Vec<Option<CaseResult>>>> =
        Arc::new(Mutex::new(vec![None; cases.len()]));
    let mut handles = vec![];
    for (s, idxs) in shard_cases.into_iter().enumerate() {
        let path = tmpdir.join(format!(
            "sweep-{}-{}-{}-{}.txt",
            ctx.id,
            ctx.profile,
            std::process::id(),
            s
        ));
        let mut f = std::fs::File::create(&path).unwrap();
        for &i in &idxs {
            writeln!(f, "{}", cases[i].encode()).unwrap();
        }
        drop(f);
        let exe = exe.clone();
        let results = results.clone();
        let timeout = cfg.case_timeout;
        handles.push(std::thread::spawn(move || {
            let mut start = 0usize;
            while start < idxs.len() {
                let mut child = Command::new(&exe)
                    .arg("sweep-worker")
                    .arg(&path)
                    .arg(start.to_string())
                    .stdout(Stdio::piped())
                    .stderr(Stdio::null())
                    .spawn()
                    .expect("spawn worker");
                let out = child.stdout.take().unwrap();
                // reader thread -> channel, so the watchdog can time out
                let (tx, rx) = std::sync::mpsc::channel::<String>();
                let rd = std::thread::spawn(move || {
                    let br = BufReader::new(out);
                    for l in br.lines() {
                        match l {
                            Ok(l) => {
                                if tx.send(l).is_err() {
                                    break;
                                }
                            }
                            Err(_) => break,
                        }
                    }
                });
                let mut current: Option<usize> = None;
                let mut hung = false;
                loop {
                    match rx.recv_timeout(timeout) {
                        Ok(l) => {
                            if let Some(r) = l.strip_prefix("S ") {
                                current = r.trim().parse().ok();
                            } else if let Some(r) = l.strip_prefix("R ") {
                                let mut it = r.splitn(2, ' ');
                                let li: usize = it.next().unwrap().parse().unwrap();
                                let res = decode_result(it.next().unwrap_or(""));
                                results.lock().unwrap()[idxs[li]] = Some(res);
                                start = li + 1;
                                current = None;
                            }
                        }
                        Err(std::sync::mpsc::RecvTimeoutError::Timeout) => {
                            hung = true;
                            let _ = child.kill();
                            break;
                        }
                        Err(std::sync::mpsc::RecvTimeoutError::Disconnected) => break,
                    }
                }
                let status = child.wait();
                let _ = rd.join();
                if hung {
                    let li = current.unwrap_or(start);
                    results.lock().unwrap()[idxs[li]] = Some(CaseResult {
                        outcome: Outcome::Hang,
                        micros: timeout.as_micros() as u64,
                        polls: 0,
                    });
                    start = li + 1;
                } else if let Some(li) = current {
                    // worker died in the middle of a case
                    let st = match status {
                        Ok(s) => format!("{}", s),
                        Err(e) => format!("{}", e),
                    };
                    results.lock().unwrap()[idxs[li]] = Some(CaseResult {
                        outcome: Outcome::Crash(st.replace(' ', "_")),
                        micros: 0,
                        polls: 0,
                    });
                    start = li + 1;
                } else if start < idxs.len() {
                    // exited without finishing and without a case in progress
                    let ok = matches!(&status, Ok(s) if s.success());
                    if !ok || start < idxs.len() {
                        // attribute to machinery: mark remaining as crash(machinery)
                        let mut g = results.lock().unwrap();
                        for &i in &idxs[start..] {
                            g[i] = Some(CaseResult {
                                outcome: Outcome::Crash("machinery:worker-exit".into()),
                                micros: 0,
                                polls: 0,
                            });
                        }
                        start = idxs.len();
                    }
                }
            }
            let _ = std::fs::remove_file(&path);
        }));
    }
    for h in handles {
        let _ = h.join();
    }
    let g = results.lock().unwrap();
    g.iter()
        .map(|r| {
            r.clone().unwrap_or(CaseResult {
                outcome: Outcome::Crash("machinery:no-result".into()),
                micros: 0,
                polls: 0,
            })
        })
        .collect()
}
