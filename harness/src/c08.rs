//! C08: word-level division / inverse / square-root primitives, bounded-exhaustive
//! against native `/ %` on u128 and bnum.

use bnum::BUint;
use rayon::prelude::*;
use std::sync::atomic::{AtomicU64, Ordering};
use yamaquasi::arith::{self, Dividers, Inverter};
use yamaquasi::Uint;

use crate::common::*;
use crate::refmodel::{self as rm};

const W4: [u64; 4] = [0, 1, 1 << 63, u64::MAX];

struct Bad {
    key: String,
    what: String,
}

fn boundary_u64(p: u64) -> Vec<u64> {
    let mut v = vec![0u64, 1, 2, p - 1, p, p + 1, 2 * p - 1, 2 * p, u64::MAX, u64::MAX - 1, 1 << 63, (1 << 63) - 1, (1 << 63) + 1, 1 << 32, (1 << 32) - 1, 1 << 31];
    for t in [1u64 << 31, 1 << 32, 1 << 62, 1 << 63] {
        let q = t / p;
        for dq in [0u64, 1] {
            let m = (q + dq).wrapping_mul(p);
            for r in [0u64, 1, p - 1] {
                v.push(m.wrapping_add(r));
                v.push(m.wrapping_sub(r));
            }
        }
    }
    // multiples adjacent to 2^64
    let q = u64::MAX / p;
    let m = q * p;
    for r in [0u64, 1, p - 1] {
        v.push(m - r);
        if let Some(x) = m.checked_add(r) {
            v.push(x);
        }
    }
    v.sort();
    v.dedup();
    v
}

/// Checks every 64/128-bit routine of one divider; returns (evaluations, corrections taken).
fn check_prime_words(p: u32, bad: &mut Vec<Bad>) -> (u64, u64) {
    let d = match guarded(|| Dividers::new(p)) {
        Ok(d) => d,
        Err(e) => {
            bad.push(Bad {
                key: "fn=Dividers::new;what=panic".into(),
                what: format!("Dividers::new({}) panicked: {}", p, e.short()),
            });
            return (1, 0);
        }
    };
    let pp = p as u64;
    let mut ev = 0;
    let mut nontrivial = 0;
    for n in boundary_u64(pp) {
        ev += 3;
        let (q, r) = d.divmod64(n);
        if q != n / pp || r != n % pp {
            bad.push(Bad {
                key: "fn=divmod64".into(),
                what: format!("Dividers({}).divmod64({}) = ({}, {})", p, n, q, r),
            });
        }
        if n % pp > pp / 2 {
            nontrivial += 1;
        }
        if n >> 63 == 0 {
            let r = d.modu63(n);
            if r != n % pp {
                bad.push(Bad {
                    key: "fn=modu63".into(),
                    what: format!("Dividers({}).modu63({}) = {}", p, n, r),
                });
            }
        }
        let s = n as i64;
        let want = (s as i128).rem_euclid(pp as i128) as u64;
        let r = d.modi64(s);
        if r != want {
            bad.push(Bad {
                key: "fn=modi64".into(),
                what: format!("Dividers({}).modi64({}) = {} expected {}", p, s, r, want),
            });
        }
    }
    // 128-bit operands: W4 x W4 words, multiples of p next to 2^127 / 2^128
    let mut xs: Vec<u128> = vec![];
    for &a in &W4 {
        for &b in &W4 {
            xs.push(a as u128 | (b as u128) << 64);
        }
    }
    for t in [1u128 << 127, u128::MAX, 1u128 << 64, 1u128 << 96] {
        let m = (t / pp as u128) * pp as u128;
        for r in [0u128, 1, pp as u128 - 1] {
            xs.push(m.wrapping_sub(r));
            if let Some(x) = m.checked_add(r) {
                xs.push(x);
            }
        }
    }
    for x in xs {
        ev += 1;
        let r = d.mod_u128(x);
        if r as u128 != x % pp as u128 {
            bad.push(Bad {
                key: "fn=mod_u128".into(),
                what: format!("Dividers({}).mod_u128({}) = {}", p, x, r),
            });
        }
    }
    (ev, nontrivial)
}

fn multiword_operands<const N: usize>(p: u64) -> Vec<BUint<N>> {
    let mut v: Vec<BUint<N>> = vec![];
    // every word count 1..N with W4 patterns on (top, middle, low) positions
    for len in 1..=N {
        for &top in &W4[1..] {
            for &mid in &W4 {
                for &low in &W4 {
                    let mut d = [0u64; N];
                    for i in 0..len {
                        d[i] = mid;
                    }
                    d[0] = low;
                    d[len - 1] = top;
                    v.push(BUint::from_digits(d));
                    if len >= 3 {
                        // a zero word below a live carry, at each interior position
                        for z in 1..len - 1 {
                            let mut d2 = d;
                            d2[z] = 0;
                            v.push(BUint::from_digits(d2));
                        }
                    }
                }
            }
        }
    }
    // multiples of p adjacent to 2^(64 j)
    for j in 1..N as u32 {
        let t = BUint::<N>::ONE << (64 * j);
        let m = (t / BUint::from_digit(p)) * BUint::from_digit(p);
        v.push(m);
        v.push(m + BUint::ONE);
        v.push(m - BUint::ONE);
        v.push(m + BUint::from_digit(p));
    }
    v.push(BUint::MAX);
    v.push(BUint::ZERO);
    v
}

fn check_prime_multiword(p: u32, bad: &mut Vec<Bad>) -> u64 {
    let d = Dividers::new(p);
    let mut ev = 0;
    macro_rules! go {
        ($n:expr) => {{
            for x in multiword_operands::<$n>(p as u64) {
                ev += 2;
                let pb = BUint::<$n>::from_digit(p as u64);
                let (q, r) = (x / pb, (x % pb).digits()[0]);
                let r1 = d.mod_uint(&x);
                if r1 != r {
                    bad.push(Bad {
                        key: format!("fn=mod_uint;words={}", $n),
                        what: format!("Dividers({}).mod_uint::<{}>({}) = {} expected {}", p, $n, x, r1, r),
                    });
                }
                let res = guarded(|| d.divmod_uint(&x));
                match res {
                    Ok((q2, r2)) => {
                        if q2 != q || r2 != r {
                            bad.push(Bad {
                                key: format!("fn=divmod_uint;words={}", $n),
                                what: format!("Dividers({}).divmod_uint::<{}>({}) = ({}, {}) expected ({}, {})", p, $n, x, q2, r2, q, r),
                            });
                        }
                    }
                    Err(e) => bad.push(Bad {
                        key: format!("fn=divmod_uint;words={};what=panic", $n),
                        what: format!("Dividers({}).divmod_uint::<{}>({}) panicked: {}", p, $n, x, e.short()),
                    }),
                }
            }
        }};
    }
    go!(2);
    go!(4);
    go!(8);
    go!(16);
    ev
}

fn check_inverter(p: u32, xs: &mut dyn Iterator<Item = u32>, bad: &mut Vec<Bad>) -> u64 {
    let d = Dividers::new(p);
    let inv = Inverter::new(p);
    let mut ev = 0;
    for x in xs {
        if x == 0 || x >= p {
            continue;
        }
        ev += 1;
        let i = match guarded(|| inv.invert(x, &d)) {
            Ok(i) => i,
            Err(e) => {
                if bad.len() < 16 {
                    bad.push(Bad {
                        key: format!("fn=Inverter::invert;what=panic;site={}", e.site),
                        what: format!("Inverter({}).invert({}) panicked: {}", p, x, e.short()),
                    });
                }
                continue;
            }
        };
        if i >= p || (i as u64 * x as u64) % p as u64 != 1 % p as u64 {
            if bad.len() < 16 {
                bad.push(Bad {
                    key: "fn=Inverter::invert".into(),
                    what: format!("Inverter({}).invert({}) = {} (x*inv mod p = {})", p, x, i, (i as u64 * x as u64) % p as u64),
                });
            }
        }
    }
    ev
}

fn mulmod64(a: u64, b: u64, p: u64) -> u64 {
    ((a as u128 * b as u128) % p as u128) as u64
}

fn is_square_mod(n: u64, p: u64) -> bool {
    // Euler criterion with u128 arithmetic
    if n % p == 0 || p == 2 {
        return true;
    }
    let mut r = 1u64;
    let mut b = n % p;
    let mut e = (p - 1) / 2;
    while e > 0 {
        if e & 1 == 1 {
            r = mulmod64(r, b, p);
        }
        b = mulmod64(b, b, p);
        e >>= 1;
    }
    r == 1
}

pub fn run(ctx: &Ctx) -> Report {
    let mut rep = Report::new("exploration");
    let evals = AtomicU64::new(0);
    let nontriv = AtomicU64::new(0);
    let plimit: u64 = ctx.pick(1 << 24, 1 << 30);
    let sieve = rm::OddSieve::new(plimit);
    let primes16: Vec<u64> = rm::primes_below(1 << 16);
    let mut all_bad: Vec<Bad> = vec![];

    // ---- modu16: all primes < 2^16 x all 65536 operands
    let b: Vec<Bad> = primes16
        .par_iter()
        .flat_map(|&p| {
            let d = Dividers::new(p as u32);
            let mut bad = vec![];
            for n in 0..=u16::MAX {
                if d.modu16(n) as u64 != n as u64 % p && bad.len() < 3 {
                    bad.push(Bad {
                        key: "fn=modu16".into(),
                        what: format!("Dividers({}).modu16({}) = {}", p, n, d.modu16(n)),
                    });
                }
            }
            bad
        })
        .collect();
    all_bad.extend(b);
    evals.fetch_add(primes16.len() as u64 * 65536, Ordering::Relaxed);

    // ---- 64/128-bit routines: EVERY prime below the limit
    let chunk = 1u64 << 18;
    let nchunks = (plimit + chunk - 1) / chunk;
    let b: Vec<Bad> = (0..nchunks)
        .into_par_iter()
        .flat_map(|c| {
            let mut bad = vec![];
            let lo = c * chunk;
            let hi = ((c + 1) * chunk).min(plimit);
            let mut ev = 0;
            let mut nt = 0;
            for p in lo..hi {
                if sieve.is_prime(p) {
                    let (e, n) = check_prime_words(p as u32, &mut bad);
                    ev += e;
                    nt += n;
                    bad.truncate(6);
                }
            }
            evals.fetch_add(ev, Ordering::Relaxed);
            nontriv.fetch_add(nt, Ordering::Relaxed);
            bad
        })
        .collect();
    all_bad.extend(b);
    // primes between the limit and 2^30 in windows (quick tier) + constructor bound
    let mut window_primes: Vec<u64> = vec![];
    for k in 8..=30u32 {
        let c = 1u64 << k;
        let (lo, hi) = (c.saturating_sub(1 << 10), (c + (1 << 10)).min((1 << 30) - 1));
        let mut p = lo | 1;
        while p <= hi {
            if rm::is_prime_u64(p) {
                window_primes.push(p);
            }
            p += 2;
        }
    }
    window_primes.sort();
    window_primes.dedup();
    {
        let mut bad = vec![];
        for &p in &window_primes {
            let (e, n) = check_prime_words(p as u32, &mut bad);
            evals.fetch_add(e, Ordering::Relaxed);
            nontriv.fetch_add(n, Ordering::Relaxed);
        }
        all_bad.extend(bad);
    }

    // ---- multiword: all primes < 2^12 and the window primes
    let mut mw_primes: Vec<u64> = primes16.iter().cloned().filter(|&p| p < ctx.pick(1 << 11, 1 << 13)).collect();
    mw_primes.extend(window_primes.iter().cloned().filter(|p| p % 8 == 3 || ctx.pick(false, true) || *p > (1 << 29)));
    mw_primes.sort();
    mw_primes.dedup();
    let b: Vec<Bad> = mw_primes
        .par_iter()
        .flat_map(|&p| {
            let mut bad = vec![];
            let e = check_prime_multiword(p as u32, &mut bad);
            evals.fetch_add(e, Ordering::Relaxed);
            bad.truncate(6);
            bad
        })
        .collect();
    all_bad.extend(b);

    // ---- Inverter: all x for small primes; boundary x for window primes below 2^28
    let inv_all_limit: u64 = ctx.pick(1 << 13, 1 << 16);
    let b: Vec<Bad> = primes16
        .par_iter()
        .filter(|&&p| p < inv_all_limit && p > 2)
        .flat_map(|&p| {
            let mut bad = vec![];
            let e = check_inverter(p as u32, &mut (1..p as u32), &mut bad);
            evals.fetch_add(e, Ordering::Relaxed);
            nontriv.fetch_add(e, Ordering::Relaxed);
            bad.truncate(4);
            bad
        })
        .collect();
    all_bad.extend(b);
    // the documented limit of the Inverter is p < 2^28: EVERY prime of the last 2^17 (thorough
    // 2^20) below it, where the internal products are largest
    let top28: Vec<u64> = {
        let lo = (1u64 << 28) - ctx.pick(1u64 << 17, 1 << 20);
        let sieve = rm::primes_below(1 << 14);
        (lo..1 << 28).filter(|&x| x % 2 == 1 && sieve.iter().all(|&q| x % q != 0)).collect()
    };
    let b: Vec<Bad> = window_primes
        .par_iter()
        .chain(top28.par_iter())
        .filter(|&&p| p < (1 << 28) && p > 2)
        .flat_map(|&p| {
            let p32 = p as u32;
            let mut xs: Vec<u32> = (1..=64).collect();
            for d in 1..=64 {
                xs.push(p32.wrapping_sub(d));
            }
            for j in 0..28 {
                xs.push(1 << j);
                xs.push((1 << j) + 1);
                xs.push((1u32 << j).wrapping_sub(1));
                xs.push(p32.wrapping_sub(1 << j));
            }
            xs.push(p32 / 2);
            xs.push(p32 / 2 + 1);
            xs.push(p32 / 3);
            for i in 0..64u64 {
                xs.push((mix64(p ^ i) % p) as u32);
            }
            xs.sort();
            xs.dedup();
            let mut bad = vec![];
            let e = check_inverter(p32, &mut xs.into_iter(), &mut bad);
            evals.fetch_add(e, Ordering::Relaxed);
            bad.truncate(4);
            bad
        })
        .collect();
    all_bad.extend(b);

    // ---- sqrt_mod: all residues for p < 2^12; fixed residues for every prime below 2^24
    let b: Vec<Bad> = primes16
        .par_iter()
        .filter(|&&p| p < ctx.pick(1 << 11, 1 << 13))
        .flat_map(|&p| {
            let mut bad = vec![];
            let mut squares = vec![false; p as usize];
            for x in 0..p {
                squares[(x * x % p) as usize] = true;
            }
            for n in 0..p {
                let r = guarded(|| arith::sqrt_mod(n, p));
                match r {
                    Err(e) => bad.push(Bad {
                        key: "fn=sqrt_mod;what=panic".into(),
                        what: format!("sqrt_mod({}, {}) panicked: {}", n, p, e.short()),
                    }),
                    Ok(Some(r)) => {
                        if !squares[n as usize] || r >= p || r * r % p != n {
                            bad.push(Bad {
                                key: "fn=sqrt_mod".into(),
                                what: format!("sqrt_mod({}, {}) = Some({})", n, p, r),
                            });
                        }
                    }
                    Ok(None) => {
                        if squares[n as usize] {
                            bad.push(Bad {
                                key: "fn=sqrt_mod".into(),
                                what: format!("sqrt_mod({}, {}) = None but {} is a square", n, p, n),
                            });
                        }
                    }
                }
            }
            evals.fetch_add(p, Ordering::Relaxed);
            bad.truncate(4);
            bad
        })
        .collect();
    all_bad.extend(b);
    let fb_limit: u64 = 1 << 24;
    let b: Vec<Bad> = (0..(fb_limit / chunk))
        .into_par_iter()
        .flat_map(|c| {
            let mut bad = vec![];
            let mut ev = 0;
            for p in c * chunk..(c + 1) * chunk {
                if p < 3 || !sieve.is_prime(p) {
                    continue;
                }
                if ctx.quick() && p > (1 << 20) && p % 16 != 3 && p % 16 != 9 {
                    // quick: residue classes 3 and 9 mod 16 above 2^20 (both p = 3 mod 4 and p = 1 mod 8 paths)
                    continue;
                }
                for n in [0u64, 1, 2, 3, 5, p - 1, p - 2, 1000003 % p, 0x9e3779b97f4a7c15 % p, 4, 9] {
                    ev += 1;
                    let sq = is_square_mod(n, p);
                    match guarded(|| arith::sqrt_mod(n, p)) {
                        Err(e) => bad.push(Bad {
                            key: "fn=sqrt_mod;what=panic".into(),
                            what: format!("sqrt_mod({}, {}) panicked: {}", n, p, e.short()),
                        }),
                        Ok(Some(r)) => {
                            if !sq || r >= p || mulmod64(r, r, p) != n % p {
                                bad.push(Bad {
                                    key: "fn=sqrt_mod".into(),
                                    what: format!("sqrt_mod({}, {}) = Some({})", n, p, r),
                                });
                            }
                        }
                        Ok(None) => {
                            if sq {
                                bad.push(Bad {
                                    key: "fn=sqrt_mod".into(),
                                    what: format!("sqrt_mod({}, {}) = None but it is a square", n, p),
                                });
                            }
                        }
                    }
                }
            }
            evals.fetch_add(ev, Ordering::Relaxed);
            bad.truncate(4);
            bad
        })
        .collect();
    all_bad.extend(b);
    // multiword primes p = 3 mod 4
    {
        let mut bad = vec![];
        for k in [65u32, 127, 128, 192, 255, 256, 320, 400, 500] {
            let mut p = rm::prev_prime_w(&(rm::W::ONE << k));
            while p.digits()[0] % 4 != 3 {
                p = rm::prev_prime_w(&(p - rm::W::TWO));
            }
            let pu: Uint = rm::w_to(&p);
            for x in [2u64, 3, 5, 7, 1000003, u64::MAX] {
                evals.fetch_add(2, Ordering::Relaxed);
                let xw = rm::w_u64(x);
                let sqv = rm::w_mulmod(&xw, &xw, &p);
                // a square must get a root that squares back
                match guarded(|| arith::sqrt_mod(rm::w_to::<16>(&sqv), pu)) {
                    Ok(Some(r)) => {
                        let rw = rm::w_from(&r);
                        if rm::w_mulmod(&rw, &rw, &p) != sqv {
                            bad.push(Bad {
                                key: "fn=sqrt_mod;multiword".into(),
                                what: format!("sqrt_mod({}, {}) = {} does not square back", sqv, p, r),
                            });
                        }
                    }
                    Ok(None) => bad.push(Bad {
                        key: "fn=sqrt_mod;multiword".into(),
                        what: format!("sqrt_mod({}, {}) = None for a square", sqv, p),
                    }),
                    Err(e) => bad.push(Bad {
                        key: "fn=sqrt_mod;multiword;what=panic".into(),
                        what: format!("sqrt_mod({}, {}) panicked: {}", sqv, p, e.short()),
                    }),
                }
                // the negative of a square is a non-residue when p = 3 mod 4
                let neg = (p - sqv) % p;
                if let Ok(Some(r)) = guarded(|| arith::sqrt_mod(rm::w_to::<16>(&neg), pu)) {
                    if !neg.is_zero() {
                        bad.push(Bad {
                            key: "fn=sqrt_mod;multiword".into(),
                            what: format!("sqrt_mod({}, {}) = Some({}) for a non-residue", neg, p, r),
                        });
                    }
                }
            }
        }
        all_bad.extend(bad);
    }

    // ---- inv_mod64 / pow_mod: all (n, p) with p < 2^10
    {
        let mut bad = vec![];
        for p in 2u64..ctx.pick(1 << 9, 1 << 10) {
            for n in 0..p {
                evals.fetch_add(1, Ordering::Relaxed);
                let g = {
                    let (mut a, mut b) = (n, p);
                    while b != 0 {
                        (a, b) = (b, a % b);
                    }
                    a
                };
                match arith::inv_mod64(n, p) {
                    Some(i) => {
                        if g != 1 || i >= p || i * n % p != 1 % p {
                            bad.push(Bad {
                                key: "fn=inv_mod64".into(),
                                what: format!("inv_mod64({}, {}) = Some({})", n, p, i),
                            });
                        }
                    }
                    None => {
                        if g == 1 {
                            bad.push(Bad {
                                key: "fn=inv_mod64".into(),
                                what: format!("inv_mod64({}, {}) = None", n, p),
                            });
                        }
                    }
                }
            }
            if rm::is_prime_u64(p) {
                for n in 0..p.min(64) {
                    for k in [0u64, 1, 2, p - 2, p - 1, p, 1 << 20, u64::MAX] {
                        evals.fetch_add(1, Ordering::Relaxed);
                        let want = {
                            let mut r = 1 % p;
                            let mut b = n % p;
                            let mut e = k;
                            while e > 0 {
                                if e & 1 == 1 {
                                    r = r * b % p;
                                }
                                b = b * b % p;
                                e >>= 1;
                            }
                            r
                        };
                        let got = arith::pow_mod(n, k, p);
                        if got != want && p > 1 {
                            bad.push(Bad {
                                key: "fn=pow_mod".into(),
                                what: format!("pow_mod({}, {}, {}) = {} expected {}", n, k, p, got, want),
                            });
                        }
                    }
                }
            }
        }
        bad.truncate(10);
        all_bad.extend(bad);
    }

    // ---- isqrt (num-integer on u64 / bnum), squfof::isqrt
    {
        let mut bad = vec![];
        let mut cands: Vec<u64> = (0..(1u64 << 22)).collect();
        let mut ks: Vec<u64> = vec![(1 << 32) - 1, (1 << 31), (1 << 31) - 1, (1 << 26) + 1, 94906265, 94906266, 94906267, 3037000499, 3037000500, 4294967295, 4294967294];
        for j in 1..32 {
            ks.push(1 << j);
            ks.push((1 << j) + 1);
            ks.push((1 << j) - 1);
        }
        for &k in &ks {
            let sq = k as u128 * k as u128;
            for d in [-1i128, 0, 1] {
                let v = sq as i128 + d;
                if v >= 0 && v < (1i128 << 64) {
                    cands.push(v as u64);
                }
            }
        }
        for j in 1..64u32 {
            for d in [-1i128, 0, 1] {
                let v = (1i128 << j) + d;
                cands.push(v as u64);
            }
        }
        cands.push(u64::MAX);
        for &n in &cands {
            evals.fetch_add(3, Ordering::Relaxed);
            let want = {
                let mut r = (n as f64).sqrt() as u64;
                while (r as u128) * (r as u128) > n as u128 {
                    r -= 1;
                }
                while (r as u128 + 1) * (r as u128 + 1) <= n as u128 {
                    r += 1;
                }
                r
            };
            let a = arith::isqrt(n);
            if a != want {
                bad.push(Bad {
                    key: "fn=isqrt<u64>".into(),
                    what: format!("isqrt({}) = {} expected {}", n, a, want),
                });
            }
            match guarded(|| yamaquasi::squfof::verif_access::isqrt(n)) {
                Ok(b) => {
                    if b != want {
                        bad.push(Bad {
                            key: "fn=squfof::isqrt".into(),
                            what: format!("squfof::isqrt({}) = {} expected {}", n, b, want),
                        });
                    }
                }
                Err(e) => bad.push(Bad {
                    key: "fn=squfof::isqrt;what=panic".into(),
                    what: format!("squfof::isqrt({}) panicked: {}", n, e.short()),
                }),
            }
            let c = arith::isqrt(Uint::from_digit(n));
            if c != Uint::from_digit(want) {
                bad.push(Bad {
                    key: "fn=isqrt<Uint>".into(),
                    what: format!("isqrt(Uint {}) = {} expected {}", n, c, want),
                });
            }
        }
        // multiword squares
        for bits in [64u32, 65, 127, 128, 129, 255, 256, 400, 499, 500, 511] {
            for d in [0u64, 1, 2] {
                let k = (rm::W::ONE << bits) - rm::W::from_digit(d + 1);
                let sq = k * k;
                for e in [-1i32, 0, 1] {
                    let v = if e < 0 { sq - rm::W::ONE } else if e > 0 { sq + rm::W::ONE } else { sq };
                    evals.fetch_add(1, Ordering::Relaxed);
                    let want = if e < 0 { k - rm::W::ONE } else { k };
                    let got = arith::isqrt(rm::w_to::<16>(&v));
                    if rm::w_from(&got) != want {
                        bad.push(Bad {
                            key: "fn=isqrt<Uint>".into(),
                            what: format!("isqrt({}) = {} expected {}", v, got, want),
                        });
                    }
                }
            }
        }
        bad.truncate(10);
        all_bad.extend(bad);
    }

    // ---- perfect_power: all 2 <= n < 2^22; p^k for pool primes
    {
        let lim: u64 = ctx.pick(1 << 20, 1 << 22);
        // brute-force table: n -> (base, exponent) with maximal exponent
        let mut table: Vec<(u32, u8)> = vec![(0, 0); lim as usize];
        for r in 2..=((lim as f64).sqrt() as u64 + 1) {
            let mut v = r * r;
            let mut k = 2u8;
            while v < lim {
                let e = &mut table[v as usize];
                if e.1 < k {
                    *e = (r as u32, k);
                }
                v *= r;
                k += 1;
            }
        }
        let b: Vec<Bad> = (2..lim)
            .into_par_iter()
            .filter_map(|n| {
                let got = arith::perfect_power(n);
                let (r, k) = table[n as usize];
                let ok = match got {
                    None => k == 0,
                    Some((rr, kk)) => k != 0 && rr == r as u64 && kk == k as u32,
                };
                if ok {
                    None
                } else {
                    Some(Bad {
                        key: "fn=perfect_power<u64>".into(),
                        what: format!("perfect_power({}) = {:?}, brute force says base {} exponent {}", n, got, r, k),
                    })
                }
            })
            .collect();
        evals.fetch_add(lim, Ordering::Relaxed);
        all_bad.extend(b.into_iter().take(10));
        let mut bad = vec![];
        for p in [2u64, 3, 5, 7, 199, 211, 65537, 4294967291, 4294967311, 18446744073709551557] {
            let pw = rm::w_u64(p);
            let mut v = pw;
            for k in 2..=64u32 {
                v = v * pw;
                if v.bits() > 1000 {
                    break;
                }
                // exponents whose prime factors are all <= 19 are promised
                let promised = {
                    let mut e = k;
                    for q in [2u32, 3, 5, 7, 11, 13, 17, 19] {
                        while e % q == 0 {
                            e /= q;
                        }
                    }
                    e == 1
                };
                evals.fetch_add(1, Ordering::Relaxed);
                let got = arith::perfect_power(rm::w_to::<16>(&v));
                match got {
                    Some((r, kk)) => {
                        // outside the promised exponents (a prime factor above 19, e.g. 2^46 =
                        // (2^23)^2) any decomposition that multiplies back is accepted
                        let back = {
                            let mut x = rm::W::ONE;
                            for _ in 0..kk {
                                x = x * rm::w_from(&r);
                            }
                            x == v
                        };
                        if (promised && !(rm::w_from(&r) == pw && kk == k)) || !back {
                            bad.push(Bad {
                                key: "fn=perfect_power<Uint>".into(),
                                what: format!("perfect_power({}^{}) = ({}, {})", p, k, r, kk),
                            });
                        }
                    }
                    None => {
                        if promised {
                            bad.push(Bad {
                                key: "fn=perfect_power<Uint>".into(),
                                what: format!("perfect_power({}^{}) = None", p, k),
                            });
                        }
                    }
                }
                if v.bits() <= 64 {
                    let got = arith::perfect_power(v.digits()[0]);
                    if promised && got != Some((p, k)) {
                        bad.push(Bad {
                            key: "fn=perfect_power<u64>".into(),
                            what: format!("perfect_power({}^{}) = {:?}", p, k, got),
                        });
                    }
                }
                // neighbours are not perfect powers (v-1 could be, rarely: check by reference only for +1)
            }
        }
        all_bad.extend(bad);
    }

    rep.evaluations = evals.load(Ordering::Relaxed);
    rep.nontrivial = nontriv.load(Ordering::Relaxed);
    for (i, b) in all_bad.iter().enumerate() {
        if i < 60 {
            rep.violation(b.key.clone(), b.what.clone(), J::obj(vec![("case", J::s(&b.what))]));
        }
    }
    rep.sample(J::obj(vec![("fn", J::s("modu16")), ("domain", J::s("all 6542 primes < 2^16 x all 65536 operands"))]));
    rep.sample(J::obj(vec![("fn", J::s("divmod64/modu63/modi64/mod_u128")), ("primes", J::s(format!("every prime < {}", plimit))), ("operands", J::s("multiples of p adjacent to 0, 2^31, 2^32, 2^62, 2^63, 2^64 (+-{0,1,p-1}), W4 x W4 128-bit words, multiples next to 2^64, 2^96, 2^127, 2^128"))]));
    rep.sample(J::obj(vec![("fn", J::s("divmod_uint/mod_uint")), ("primes", J::from(mw_primes.len())), ("operands", J::s("BUint<2,4,8,16>: every word count, W4 on top/middle/low, a zero word at each interior position, multiples of p next to 2^(64j)"))]));
    rep.sample(J::obj(vec![("fn", J::s("Inverter::invert")), ("p", J::from(33554393u64)), ("x", J::from(33554352u64))]));
    rep.set("window_primes_up_to_2_30", J::from(window_primes.len()));
    rep.rule = format!("modu16: all primes < 2^16 x all u16; divmod64/modu63/modi64/mod_u128 and the constructor: EVERY prime < {} plus every prime within 2^10 of 2^k (k = 8..30) x ~60 boundary operands each; divmod_uint/mod_uint on 2/4/8/16-word operands for all primes < 2^11/2^13 and window primes; Inverter: every x for every prime < {} and ~300 boundary x for window primes below 2^28; sqrt_mod: every residue for primes < 2^11/2^13, 11 fixed residues for (quick: classes 3,9 mod 16 above 2^20 of) every prime < 2^24 with an Euler-criterion oracle, multiword p = 3 mod 4; inv_mod64/pow_mod: all (n,p) with p < 2^9/2^10; isqrt (u64, Uint, squfof): all n < 2^22, k^2-1,k^2,k^2+1, 2^j+-1; perfect_power: every 2 <= n < 2^20/2^22 against a brute-force table, p^k for 10 primes and k <= 64. distinct_nontrivial = division cases whose remainder exceeds p/2 plus inverter cases.", plimit, inv_all_limit);
    rep.assumptions.push("reference: native u64/u128 and bnum `/ %`".into());
    rep.assumptions.push("preconditions as written in the source: modu63 below 2^63, Inverter p < 2^28, pow_mod<u64> with p < 2^32, perfect_power n >= 2".into());
    rep
}
