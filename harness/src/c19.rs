//! C19: integer determinants, lattice indices and Smith forms are exact.
//!
//! State spaces explored completely:
//!  * every small matrix over a small entry alphabet (reference: cofactor expansion);
//!  * every signed permutation matrix scaled by distinct primes (the pivot-order permutation
//!    is the state the sign logic depends on);
//!  * every history, up to a depth, of elementary row/column operations applied to known
//!    diagonal forms: determinant (with sign), lattice index and quotient group are
//!    invariants tracked along the history, so every reachable matrix has a known answer;
//!  * every determinant bit-length 1..1300 (CRT prime count 1..22 and its boundaries);
//!  * every short linear recurrence over small fields (Berlekamp-Massey vs a textbook one).

use std::collections::{HashSet, VecDeque};
use std::sync::Arc;

use bnum::types::{I4096, I512};
use bnum::BInt;
use num_integer::Integer;
use num_traits::{Signed, ToPrimitive};
use yamaquasi::matrix::intdense::{self, GFpEchelonBuilder, SmithNormalForm};
use yamaquasi::matrix::intsparse::{self, SparseMat};

use crate::c18::factor_rho;
use crate::common::*;

type Mat = Vec<Vec<i64>>;
type Bad = (String, String, String);

// ------------------------------------------------------------------ reference

fn det_cofactor(m: &[Vec<i128>]) -> i128 {
    let n = m.len();
    match n {
        0 => 1,
        1 => m[0][0],
        2 => m[0][0] * m[1][1] - m[0][1] * m[1][0],
        _ => {
            let mut s = 0i128;
            for j in 0..n {
                if m[0][j] == 0 {
                    continue;
                }
                let minor: Vec<Vec<i128>> = (1..n).map(|i| (0..n).filter(|&c| c != j).map(|c| m[i][c]).collect()).collect();
                let d = det_cofactor(&minor);
                s += if j % 2 == 0 { m[0][j] * d } else { -m[0][j] * d };
            }
            s
        }
    }
}

/// Bareiss fraction-free elimination over 512-bit integers (cross-check of tracked determinants).
fn det_bareiss(m: &Mat) -> I512 {
    let n = m.len();
    let mut a: Vec<Vec<I512>> = m.iter().map(|r| r.iter().map(|&x| I512::from(x)).collect()).collect();
    let mut sign = 1i64;
    let mut prev = I512::ONE;
    for k in 0..n {
        if a[k][k].is_zero() {
            let Some(p) = (k + 1..n).find(|&i| !a[i][k].is_zero()) else { return I512::ZERO };
            a.swap(k, p);
            sign = -sign;
        }
        for i in k + 1..n {
            for j in k + 1..n {
                let v = a[i][j] * a[k][k] - a[i][k] * a[k][j];
                a[i][j] = v / prev;
            }
        }
        prev = a[k][k];
    }
    if n == 0 {
        return I512::ONE;
    }
    a[n - 1][n - 1] * I512::from(sign)
}

/// Determinant modulo a prime p < 2^62 by plain Gaussian elimination (reference).
fn det_mod_ref(m: &Mat, p: u64) -> u64 {
    let n = m.len();
    let mul = |a: u64, b: u64| ((a as u128 * b as u128) % p as u128) as u64;
    let pw = |mut a: u64, mut e: u64| {
        let mut r = 1u64;
        while e > 0 {
            if e & 1 == 1 {
                r = mul(r, a);
            }
            a = mul(a, a);
            e >>= 1;
        }
        r
    };
    let mut a: Vec<Vec<u64>> = m.iter().map(|r| r.iter().map(|&x| (x as i128).rem_euclid(p as i128) as u64).collect()).collect();
    let mut det = 1u64;
    for k in 0..n {
        let Some(pv) = (k..n).find(|&i| a[i][k] != 0) else { return 0 };
        if pv != k {
            a.swap(pv, k);
            det = (p - det) % p;
        }
        det = mul(det, a[k][k]);
        let inv = pw(a[k][k], p - 2);
        for i in k + 1..n {
            if a[i][k] == 0 {
                continue;
            }
            let f = mul(a[i][k], inv);
            for j in k..n {
                let v = mul(f, a[k][j]);
                a[i][j] = (a[i][j] + p - v) % p;
            }
        }
    }
    det
}

const REF_P: u64 = 2305843009213693951; // 2^61 - 1

fn i4096_mod(x: &I4096, p: u64) -> u64 {
    let pp = I4096::from(p);
    let r = *x % pp;
    let r = if r.is_negative() { r + pp } else { r };
    r.to_u64().unwrap()
}

fn to_i128m(m: &Mat) -> Vec<Vec<i128>> {
    m.iter().map(|r| r.iter().map(|&x| x as i128).collect()).collect()
}

fn all_minors_gcd(rows: &[Vec<i128>], k: usize) -> i128 {
    // gcd of all k x k minors of a (r x n) matrix
    let r = rows.len();
    let n = rows[0].len();
    let mut g: i128 = 0;
    let rs = combos(r, k);
    let cs = combos(n, k);
    for ri in &rs {
        for ci in &cs {
            let sub: Vec<Vec<i128>> = ri.iter().map(|&i| ci.iter().map(|&c| rows[i][c]).collect()).collect();
            g = g.gcd(&det_cofactor(&sub));
            if g == 1 {
                return 1;
            }
        }
    }
    g
}

fn combos(n: usize, k: usize) -> Vec<Vec<usize>> {
    let mut out = vec![];
    fn rec(start: usize, n: usize, k: usize, cur: &mut Vec<usize>, out: &mut Vec<Vec<usize>>) {
        if cur.len() == k {
            out.push(cur.clone());
            return;
        }
        for i in start..n {
            cur.push(i);
            rec(i + 1, n, k, cur, out);
            cur.pop();
        }
    }
    rec(0, n, k, &mut vec![], &mut out);
    out
}

/// Canonical description of a finite abelian group given by cyclic factors: sorted prime powers.
fn primary(factors: &[u128]) -> Option<Vec<(u64, u32)>> {
    let mut out = vec![];
    for &d in factors {
        if d == 0 {
            return None;
        }
        if d > u64::MAX as u128 {
            // split off small primes only; remaining cofactor kept as a pseudo-prime tag
            let mut x = d;
            for p in [2u64, 3, 5, 7, 11, 13] {
                let mut e = 0;
                while x % p as u128 == 0 {
                    x /= p as u128;
                    e += 1;
                }
                if e > 0 {
                    out.push((p, e));
                }
            }
            if x > 1 {
                if x > u64::MAX as u128 {
                    out.push(((x % 0xffff_ffff_ffff_ffc5) as u64, 1000 + (x >> 64) as u32 % 1000));
                } else {
                    out.extend(factor_rho(x as u64));
                }
            }
            continue;
        }
        out.extend(factor_rho(d as u64));
    }
    out.sort_unstable();
    Some(out)
}

// ------------------------------------------------------------------ driving the real routines

fn log2_abs_i128(x: i128) -> f64 {
    (x.unsigned_abs() as f64).log2()
}

fn i4096_of_i128(x: i128) -> I4096 {
    I4096::from(x)
}

/// det_matz on a matrix whose determinant is known; estimate = exact log2.
fn check_det_matz(m: &Mat, det: &I4096, log2: f64, fam: &str, id: &dyn Fn() -> String, bad: &mut Vec<Bad>) {
    let rows: Vec<&[i64]> = m.iter().map(|r| &r[..]).collect();
    match guarded(|| intdense::det_matz(rows, log2)) {
        Ok(d) => {
            if d != *det {
                let what = if d == -*det { "sign" } else { "value" };
                bad.push((format!("routine=det_matz;what=wrong-{what};family={fam}"), format!("det_matz returned {} for a matrix of determinant {} ({})", short(&d.to_string()), short(&det.to_string()), id()), id()));
            }
        }
        Err(e) => bad.push((format!("routine=det_matz;what=panic;site={};family={fam}", e.site), format!("det_matz panicked on a matrix of determinant {} with exact estimate {:.6}: {} ({})", short(&det.to_string()), log2, e.short(), id()), id())),
    }
}

fn short(s: &str) -> String {
    if s.len() > 60 {
        format!("{}...({} digits)", &s[..40], s.len())
    } else {
        s.to_string()
    }
}

const ECHELON_PRIMES: [u64; 4] = [3, 65537, 2305843009213693951, 4611686018427387847];

/// GFpEchelonBuilder: determinant modulo p with sign (no estimate needed: covers det in {0, +-1}).
fn check_echelon(m: &Mat, det_mod: &dyn Fn(u64) -> u64, fam: &str, id: &dyn Fn() -> String, bad: &mut Vec<Bad>) {
    let maxabs = m.iter().flat_map(|r| r.iter()).map(|x| x.unsigned_abs()).max().unwrap_or(0);
    for p in ECHELON_PRIMES {
        // the builder reduces entries by repeated subtraction: moduli far below the entries
        // are outside its domain
        if maxabs / 64 > p {
            continue;
        }
        let want = det_mod(p);
        let r = guarded(|| {
            let mut b = GFpEchelonBuilder::new(p);
            for row in m {
                if !b.add(row) {
                    return None;
                }
            }
            Some(b.det())
        });
        match r {
            Ok(None) => {
                if want != 0 {
                    bad.push((format!("routine=echelon;what=rank-deficient-claimed;family={fam}"), format!("GFpEchelonBuilder(p={p}) rejects a row although det mod p = {want} ({})", id()), id()));
                }
            }
            Ok(Some(d)) => {
                if d != want {
                    let what = if want != 0 && d == p - want { "sign" } else { "value" };
                    bad.push((format!("routine=echelon;what=wrong-{what};family={fam}"), format!("GFpEchelonBuilder(p={p}).det() = {d}, determinant mod p is {want} ({})", id()), id()));
                }
            }
            Err(e) => bad.push((format!("routine=echelon;what=panic;site={};family={fam}", e.site), format!("GFpEchelonBuilder(p={p}) panicked: {} ({})", e.short(), id()), id())),
        }
    }
}

fn mod_i128(x: i128, p: u64) -> u64 {
    x.rem_euclid(p as i128) as u64
}

fn sparse_rows(m: &Mat) -> Vec<Vec<(u32, i32)>> {
    m.iter().map(|r| r.iter().enumerate().filter(|(_, &x)| x != 0).map(|(j, &x)| (j as u32, x as i32)).collect()).collect()
}

fn fits_sparse(m: &Mat) -> bool {
    m.iter().all(|r| r.iter().all(|&x| x.abs() < 1 << 15))
}

/// Brackets offered to the lattice index routines: all contain h.
fn brackets(h: f64) -> Vec<(f64, f64)> {
    vec![(h, h), (0.95 * h, 1.05 * h), (h, 1.2 * h), (0.85 * h, h), (0.9 * h, 1.1 * h)]
}

fn check_lattice_dense(rows: &Mat, h: u128, fam: &str, id: &dyn Fn() -> String, bad: &mut Vec<Bad>, all_brackets: bool) -> u64 {
    let hf = h as f64;
    let bs = brackets(hf);
    let bs = if all_brackets { &bs[..] } else { &bs[1..2] };
    let mut n = 0;
    for &(lo, hi) in bs {
        n += 1;
        let rr = rows.clone();
        match guarded(|| intdense::compute_lattice_index(&rr, lo, hi)) {
            Ok(v) => {
                if v != h {
                    bad.push((format!("routine=lattice_index;what=wrong-value;family={fam}"), format!("compute_lattice_index returned {v} for a row lattice of index {h} with bounds [{lo}, {hi}] ({})", id()), id()));
                }
            }
            Err(e) => bad.push((format!("routine=lattice_index;what=panic;site={};family={fam}", e.site), format!("compute_lattice_index panicked for a row lattice of index {h} with bounds [{lo}, {hi}]: {} ({})", e.short(), id()), id())),
        }
    }
    n
}

/// SmithNormalForm::new + reduce on relation rows; gens are labelled by `ids` (ascending).
fn check_snf(rows: &Mat, ids: &[u32], h: u128, group: &[(u64, u32)], fam: &str, id: &dyn Fn() -> String, bad: &mut Vec<Bad>) {
    let rels: Vec<Vec<(u32, i32)>> = rows.iter().map(|r| r.iter().enumerate().filter(|(_, &x)| x != 0).map(|(j, &x)| (ids[j], x as i32)).collect()).collect();
    // every generator must occur, otherwise the dimension differs
    let mut seen = vec![false; ids.len()];
    for r in rows {
        for (j, &x) in r.iter().enumerate() {
            if x != 0 {
                seen[j] = true;
            }
        }
    }
    if !seen.iter().all(|&b| b) {
        return;
    }
    let hf = h as f64;
    let res = guarded(|| {
        let mut s = SmithNormalForm::new(&rels, vec![], 0.95 * hf, 1.05 * hf);
        let h0 = s.h;
        s.reduce();
        let diag: Vec<i128> = (0..s.rows.len()).map(|i| s.rows[i][i]).collect();
        let offdiag = (0..s.rows.len()).any(|i| (0..s.rows.len()).any(|j| i != j && s.rows[i][j] != 0));
        (h0, diag, offdiag, s.gens.clone(), s.removed.len())
    });
    match res {
        Err(e) => {
            // With exactly as many relations as generators the row reduction has nothing to
            // repair a replaced pivot with: its final determinant assertion fails on most such
            // inputs. One known finding identified by this condition and the assertion site.
            if rows.len() == ids.len() && e.site.ends_with("SmithNormalForm::reduce") && e.msg.contains("generators") {
                bad.push((format!("routine=smith;what=panic;site={};cause=no-redundant-relation", e.site), format!("SmithNormalForm::reduce fails its determinant assertion on a square presentation of a group of order {h}: {} ({})", e.short(), id()), String::from("@condition")));
            } else {
                bad.push((format!("routine=smith;what=panic;site={};family={fam}", e.site), format!("SmithNormalForm panicked on a presentation of a group of order {h}: {} ({})", e.short(), id()), id()));
            }
        }
        Ok((h0, diag, offdiag, gens, _removed)) => {
            if h0 != h {
                bad.push((format!("routine=smith;what=wrong-index;family={fam}"), format!("SmithNormalForm::new computed index {h0}, true index {h} ({})", id()), id()));
                return;
            }
            if offdiag || diag.iter().any(|&d| d <= 0) {
                bad.push((format!("routine=smith;what=not-diagonal;family={fam}"), format!("reduce() left diagonal {:?} offdiag={offdiag} ({})", diag, id()), id()));
                return;
            }
            let prod = diag.iter().fold(Some(1u128), |a, &d| a.and_then(|a| a.checked_mul(d as u128)));
            if prod != Some(h) {
                bad.push((format!("routine=smith;what=product-not-index;family={fam}"), format!("diagonal {:?} does not multiply to the index {h} ({})", diag, id()), id()));
                return;
            }
            if gens.len() != diag.len() {
                bad.push((format!("routine=smith;what=shape;family={fam}"), format!("{} generators for {} diagonal entries ({})", gens.len(), diag.len(), id()), id()));
            }
            let got = primary(&diag.iter().map(|&d| d as u128).collect::<Vec<_>>());
            if got.as_deref() != Some(group) {
                bad.push((format!("routine=smith;what=wrong-group;family={fam}"), format!("diagonal {:?} describes {:?}, the quotient is {:?} ({})", diag, got, group, id()), id()));
            }
        }
    }
}

/// Linear complexity of the sequence (M^k v)[0], k < 2n, modulo p, for the start vector the
/// sparse routines use (reference arithmetic + textbook Berlekamp-Massey).
fn krylov_complexity(m: &Mat, p: u64) -> usize {
    bm_reference(p, &krylov_sequence(m, p)).0
}

fn krylov_sequence(m: &Mat, p: u64) -> Vec<u64> {
    let n = m.len();
    let (mut x, mut y) = (0u64, 1u64);
    let mut v: Vec<u64> = vec![0; n];
    for j in 0..n {
        (x, y) = (y, (x + y) % 65537);
        v[j] = y % p;
    }
    let mm: Vec<Vec<(usize, u64)>> = m.iter().map(|r| r.iter().enumerate().filter(|(_, &e)| e != 0).map(|(j, &e)| (j, (e as i128).rem_euclid(p as i128) as u64)).collect()).collect();
    let mut seq = Vec::with_capacity(2 * n);
    loop {
        seq.push(v[0]);
        if seq.len() == 2 * n {
            break;
        }
        let w: Vec<u64> = mm.iter().map(|r| r.iter().fold(0u64, |a, &(j, e)| ((a as u128 + e as u128 * v[j] as u128) % p as u128) as u64)).collect();
        v = w;
    }
    seq
}

/// The sparse determinant reads det M off the degree-n coefficient of the minimal polynomial of
/// one fixed Krylov sequence; when that sequence has linear complexity below n the routine
/// cannot see the determinant (the source carries a FIXME for it). Failures under this
/// condition are one known finding identified by the condition; any other failure is new.
const DEGENERATE: &str = "cause=krylov-sequence-degenerate";
/// berlekamp_massey indexes out of bounds when its input sequence ends with a zero term
/// (possible only for singular matrices): one known finding identified by that condition.
const TRAILING_ZERO: &str = "cause=krylov-sequence-ends-with-zero";

fn check_sparse_det(m: &Mat, det: i128, fam: &str, id: &dyn Fn() -> String, bad: &mut Vec<Bad>, pool: Option<&rayon::ThreadPool>) {
    let rows = sparse_rows(m);
    let want = BInt::<1024>::from(det);
    match guarded(|| SparseMat::new(rows).detz(pool)) {
        Ok(d) => {
            if d != want {
                let what = if d.is_zero() { "zero" } else if d == -want { "sign" } else { "value" };
                if d.is_zero() && krylov_complexity(m, REF_P) < m.len() {
                    bad.push((format!("routine=sparse_detz;what=wrong-zero;{DEGENERATE}"), format!("SparseMat::detz returned 0 for a matrix of determinant {det} whose Krylov sequence from the fixed start vector has linear complexity below the dimension ({})", id()), String::from("@condition")));
                } else {
                    bad.push((format!("routine=sparse_detz;what=wrong-{what};family={fam}"), format!("SparseMat::detz returned {} for a matrix of determinant {det} ({})", short(&d.to_string()), id()), id()));
                }
            }
        }
        Err(e) => {
            if det == 0 && e.site.ends_with("berlekamp_massey") && krylov_sequence(m, REF_P).last() == Some(&0) {
                bad.push((format!("routine=sparse_detz;what=panic;site={};{TRAILING_ZERO}", e.site), format!("SparseMat::detz panicked on a singular matrix whose Krylov sequence ends with a zero term: {} ({})", e.short(), id()), String::from("@condition")));
            } else {
                bad.push((format!("routine=sparse_detz;what=panic;site={};family={fam}", e.site), format!("SparseMat::detz panicked on a matrix of determinant {det}: {} ({})", e.short(), id()), id()));
            }
        }
    }
}

// ------------------------------------------------------------------ histories

#[derive(Clone, Copy, Debug, PartialEq, Eq, Hash)]
enum Op {
    RowAdd(u8, u8, i8),
    ColAdd(u8, u8, i8),
    RowSwap(u8, u8),
    ColSwap(u8, u8),
    RowNeg(u8),
    ColNeg(u8),
}

fn alphabet(n: usize, limit_pairs: Option<&[(u8, u8)]>) -> Vec<Op> {
    let mut ops = vec![];
    let pairs: Vec<(u8, u8)> = match limit_pairs {
        Some(p) => p.to_vec(),
        None => (0..n as u8).flat_map(|i| (0..n as u8).filter(move |&j| j != i).map(move |j| (i, j))).collect(),
    };
    for &(i, j) in &pairs {
        for s in [1i8, -1] {
            ops.push(Op::RowAdd(i, j, s));
            ops.push(Op::ColAdd(i, j, s));
        }
        if i < j {
            ops.push(Op::RowSwap(i, j));
            ops.push(Op::ColSwap(i, j));
        }
    }
    let mut idx: Vec<u8> = pairs.iter().flat_map(|&(i, j)| [i, j]).collect();
    idx.sort_unstable();
    idx.dedup();
    for i in idx {
        ops.push(Op::RowNeg(i));
        ops.push(Op::ColNeg(i));
    }
    ops
}

/// Apply op; returns the determinant sign factor. None if an entry would leave the i64 comfort zone.
fn apply(m: &mut Mat, op: Op) -> Option<i8> {
    let n = m.len();
    const LIM: i64 = 1 << 61;
    match op {
        Op::RowAdd(i, j, s) => {
            for c in 0..n {
                let v = m[i as usize][c].checked_add(s as i64 * m[j as usize][c])?;
                if v.abs() >= LIM {
                    return None;
                }
                m[i as usize][c] = v;
            }
            Some(1)
        }
        Op::ColAdd(i, j, s) => {
            for r in 0..n {
                let v = m[r][i as usize].checked_add(s as i64 * m[r][j as usize])?;
                if v.abs() >= LIM {
                    return None;
                }
                m[r][i as usize] = v;
            }
            Some(1)
        }
        Op::RowSwap(i, j) => {
            m.swap(i as usize, j as usize);
            Some(-1)
        }
        Op::ColSwap(i, j) => {
            for r in 0..n {
                m[r].swap(i as usize, j as usize);
            }
            Some(-1)
        }
        Op::RowNeg(i) => {
            for c in 0..n {
                m[i as usize][c] = -m[i as usize][c];
            }
            Some(-1)
        }
        Op::ColNeg(i) => {
            for r in 0..n {
                m[r][i as usize] = -m[r][i as usize];
            }
            Some(-1)
        }
    }
}

struct State {
    m: Mat,
    sign: i8,
    hist: Vec<Op>,
}

/// All matrices reachable from `start` within `depth` operations (deduplicated on content).
fn reachable(start: &Mat, ops: &[Op], depth: usize, cap: usize) -> (Vec<State>, u64, bool) {
    let mut seen: HashSet<Mat> = HashSet::new();
    let mut out = vec![];
    let mut q = VecDeque::new();
    seen.insert(start.clone());
    q.push_back(State { m: start.clone(), sign: 1, hist: vec![] });
    let mut transitions = 0u64;
    let mut capped = false;
    while let Some(s) = q.pop_front() {
        if s.hist.len() < depth {
            for &op in ops {
                let mut m2 = s.m.clone();
                let Some(f) = apply(&mut m2, op) else { continue };
                transitions += 1;
                if seen.contains(&m2) {
                    continue;
                }
                if seen.len() >= cap {
                    capped = true;
                    continue;
                }
                seen.insert(m2.clone());
                let mut h = s.hist.clone();
                h.push(op);
                q.push_back(State { m: m2, sign: s.sign * f, hist: h });
            }
        }
        out.push(s);
    }
    (out, transitions, capped)
}

fn diag(d: &[i64]) -> Mat {
    let n = d.len();
    (0..n).map(|i| (0..n).map(|j| if i == j { d[i] } else { 0 }).collect()).collect()
}

fn with_redundant(m: &Mat) -> Mat {
    let n = m.len();
    let mut rows = m.clone();
    if n >= 2 {
        rows.push((0..n).map(|c| m[0][c] + m[1][c]).collect());
        rows.push((0..n).map(|c| m[n - 1][c] - m[0][c]).collect());
    } else {
        rows.push(m[0].iter().map(|&x| 2 * x).collect());
    }
    rows
}

#[derive(Default)]
struct Tally {
    evals: u64,
    states: u64,
    transitions: u64,
    bad: Vec<Bad>,
    notes: Vec<String>,
}

impl Tally {
    fn merge(&mut self, o: Tally) {
        self.evals += o.evals;
        self.states += o.states;
        self.transitions += o.transitions;
        self.bad.extend(o.bad);
        self.notes.extend(o.notes);
    }
}

/// Part A: every n x n matrix over a small alphabet.
fn part_small(n: usize, lo: i64, hi: i64, slice: (u64, u64)) -> Tally {
    let mut t = Tally::default();
    let k = (hi - lo + 1) as u64;
    let total = k.pow((n * n) as u32);
    let fam = format!("all-{n}x{n}-entries-{lo}..{hi}");
    let (s0, s1) = (total * slice.0 / slice.1, total * (slice.0 + 1) / slice.1);
    for code in s0..s1 {
        let mut c = code;
        let mut m: Mat = vec![vec![0; n]; n];
        for i in 0..n {
            for j in 0..n {
                m[i][j] = lo + (c % k) as i64;
                c /= k;
            }
        }
        let det = det_cofactor(&to_i128m(&m));
        let id = || format!("matrix {:?}", m);
        t.states += 1;
        if det.abs() >= 2 {
            t.evals += 1;
            check_det_matz(&m, &i4096_of_i128(det), log2_abs_i128(det), &fam, &id, &mut t.bad);
        }
        // echelon builder for all of them (including det 0, +-1), two primes only here
        t.evals += 1;
        check_echelon(&m, &|p| mod_i128(det, p), &fam, &id, &mut t.bad);
        if det != 0 && n <= 3 {
            // the rows as a lattice basis
            t.evals += check_lattice_dense(&m, det.unsigned_abs(), &fam, &id, &mut t.bad, false);
        }
        if t.bad.len() > 2000 {
            break;
        }
    }
    t
}

fn permutations(n: usize) -> Vec<Vec<usize>> {
    let mut out = vec![];
    let mut p: Vec<usize> = (0..n).collect();
    fn heap(k: usize, p: &mut Vec<usize>, out: &mut Vec<Vec<usize>>) {
        if k <= 1 {
            out.push(p.clone());
            return;
        }
        for i in 0..k {
            heap(k - 1, p, out);
            if k % 2 == 0 {
                p.swap(i, k - 1);
            } else {
                p.swap(0, k - 1);
            }
        }
    }
    heap(n, &mut p, &mut out);
    out
}

fn perm_sign(p: &[usize]) -> i128 {
    let mut seen = vec![false; p.len()];
    let mut s = 1;
    for i in 0..p.len() {
        if seen[i] {
            continue;
        }
        let mut j = i;
        let mut len = 0;
        while !seen[j] {
            seen[j] = true;
            j = p[j];
            len += 1;
        }
        if len % 2 == 0 {
            s = -s;
        }
    }
    s
}

const PRIMES: [i64; 12] = [3, 5, 7, 11, 13, 17, 19, 23, 29, 31, 37, 41];

/// Part B: every permutation of n, scaled by distinct primes with a sign pattern.
fn part_perms(n: usize, embed: usize, slice: (usize, usize)) -> Tally {
    // `embed` extra leading coordinates carry a fixed dense unimodular block rotated by the slice
    let mut t = Tally::default();
    let perms = permutations(n);
    let fam = format!("signed-permutations-{n}+{embed}");
    let total = perms.len();
    let (s0, s1) = (total * slice.0 / slice.1, total * (slice.0 + 1) / slice.1);
    for (pi, p) in perms[s0..s1].iter().enumerate() {
        for pattern in 0..3u32 {
            let dim = n + embed;
            let mut m: Mat = vec![vec![0; dim]; dim];
            let mut det: i128 = perm_sign(p);
            for i in 0..n {
                let neg = match pattern {
                    0 => false,
                    1 => i % 2 == 0,
                    _ => (pi + i) % 3 == 0,
                };
                let v = if neg { -PRIMES[i] } else { PRIMES[i] };
                m[embed + i][embed + p[i]] = v;
                det *= v as i128;
            }
            // embedded block: upper unitriangular with small entries (determinant 1), plus
            // coupling entries to the permutation part so that elimination has work to do
            for i in 0..embed {
                m[i][i] = 1;
                for j in i + 1..dim {
                    m[i][j] = ((i * 7 + j * 3 + pattern as usize) % 5) as i64 - 2;
                }
            }
            let id = || format!("permutation {:?} pattern {pattern} embed {embed}", p);
            t.states += 1;
            t.evals += 2;
            check_det_matz(&m, &i4096_of_i128(det), log2_abs_i128(det), &fam, &id, &mut t.bad);
            check_echelon(&m, &|q| mod_i128(det, q), &fam, &id, &mut t.bad);
            if t.bad.len() > 500 {
                return t;
            }
        }
    }
    t
}

struct Seed {
    d: Vec<i64>,
    ids: Vec<u32>,
}

/// Part C: histories from a diagonal form; every reachable state is checked by every routine.
fn part_histories(seed: &Seed, depth: usize, pairs: Option<Vec<(u8, u8)>>, cap: usize, do_sparse: bool, slice: (usize, usize)) -> Tally {
    let mut t = Tally::default();
    let n = seed.d.len();
    let start = diag(&seed.d);
    let ops = alphabet(n, pairs.as_deref());
    let (states, transitions, capped) = reachable(&start, &ops, depth, cap);
    if slice.0 == 0 {
        t.transitions += transitions;
        if capped {
            t.notes.push(format!("history search from diag{:?} depth {depth} hit the state cap {cap}", seed.d));
        }
    }
    let fam = format!("histories-diag{:?}-ids{:?}-depth{depth}", seed.d, seed.ids);
    let big = seed.d.iter().map(|&x| (x.unsigned_abs() as f64).log2()).sum::<f64>() > 120.0;
    let det0: i128 = if big { 0 } else { seed.d.iter().map(|&x| x as i128).product() };
    let det0_big: I4096 = seed.d.iter().fold(I4096::ONE, |a, &x| a * I4096::from(x));
    let log2: f64 = seed.d.iter().map(|&x| (x.unsigned_abs() as f64).log2()).sum();
    let h: u128 = if big { 0 } else { det0.unsigned_abs() };
    let group = if big { None } else { primary(&seed.d.iter().map(|&x| x.unsigned_abs() as u128).collect::<Vec<_>>()) };
    let total = states.len();
    let (s0, s1) = (total * slice.0 / slice.1, total * (slice.0 + 1) / slice.1);
    for st in &states[s0..s1] {
        t.states += 1;
        let id = || format!("diag{:?} then {:?}", seed.d, st.hist);
        // cross-check the tracked determinant on a sub-family (machinery)
        if n <= 4 && !big {
            let d = det_cofactor(&to_i128m(&st.m));
            if d != det0 * st.sign as i128 {
                t.bad.push(("what=MACHINERY".into(), format!("tracked determinant {} != cofactor {} for {}", det0 * st.sign as i128, d, id()), String::new()));
                return t;
            }
        } else if !big && t.states % 97 == 0 {
            let d = det_bareiss(&st.m);
            if d != I512::from(det0 * st.sign as i128) {
                t.bad.push(("what=MACHINERY".into(), format!("tracked determinant != Bareiss for {}", id()), String::new()));
                return t;
            }
        }
        let det_signed = if st.sign > 0 { det0_big } else { -det0_big };
        if log2 >= 0.6 {
            t.evals += 1;
            check_det_matz(&st.m, &det_signed, log2, &fam, &id, &mut t.bad);
        }
        if !big {
            t.evals += 1;
            check_echelon(&st.m, &|p| mod_i128(det0 * st.sign as i128, p), &fam, &id, &mut t.bad);
            // lattice index: the rows as they are, and with redundant rows appended
            let rr = with_redundant(&st.m);
            let small_entries = rr.iter().all(|r| r.iter().all(|&x| x.abs() < 1 << 29));
            if small_entries && det0 != 0 {
                // (the routine orders rows by their squared norm in i64)
                let id_sq = || format!("{} [square]", id());
                let id_rd = || format!("{} [with 2 redundant rows]", id());
                t.evals += check_lattice_dense(&st.m, h, &fam, &id_sq, &mut t.bad, n <= 4);
                t.evals += check_lattice_dense(&rr, h, &fam, &id_rd, &mut t.bad, false);
            }
            if h < (1u128 << 100) && small_entries && det0 != 0 {
                t.evals += 2;
                let id_sq = || format!("{} [square]", id());
                let id_rd = || format!("{} [with 2 redundant rows]", id());
                check_snf(&st.m, &seed.ids, h, group.as_deref().unwrap_or(&[]), &fam, &id_sq, &mut t.bad);
                check_snf(&rr, &seed.ids, h, group.as_deref().unwrap_or(&[]), &fam, &id_rd, &mut t.bad);
            }
            if do_sparse && fits_sparse(&st.m) {
                t.evals += 1;
                check_sparse_det(&st.m, det0 * st.sign as i128, &fam, &id, &mut t.bad, None);
            }
        }
        if t.bad.len() > 400_000 {
            break;
        }
    }
    t
}

/// Part D: one matrix per determinant bit-length: CRT prime counts and their boundaries.
fn bits_diag(bits: u32, chunk: u32, variant: u32) -> Vec<i64> {
    let full = (bits / chunk) as usize;
    let rest = bits % chunk;
    let mut d: Vec<i64> = vec![];
    for i in 0..full {
        d.push((1i64 << chunk) - 55 - 2 * i as i64); // just below 2^chunk
    }
    if rest > 0 {
        d.push((1i64 << rest) - if rest > 3 { 1 } else { 0 });
    }
    while d.len() < 2 {
        d.push(1);
    }
    // variants move log2 within and across the rounding interval of `bits`:
    // 0: just below bits; 1: -0.415; 2: +0.585 (next integer); 3: +0.32; 4: +0.46; 5: -0.19
    // (3 and 4 are the upper half of the interval, where |det| exceeds 2^bits)
    let last = d.len() - 1;
    // the entry that carries the multiplier: the last one when it is large enough to be scaled
    // accurately, otherwise the first
    let k = if d[last] >= 256 { last } else { 0 };
    let room = d[k] < 1 << (chunk.min(58));
    match variant {
        1 if d[k] > 4 => d[k] = d[k] / 4 * 3,
        2 if d[k] > 1 && (room || chunk <= 58) => d[k] = d[k] / 2 * 3 + 1,
        3 if d[k] >= 256 => d[k] = d[k] / 4 * 5,
        4 if d[k] >= 256 => d[k] = d[k] / 8 * 11,
        5 if d[k] >= 256 => d[k] = d[k] / 8 * 7,
        _ => {}
    }
    d
}

/// A fixed unimodular scramble; returns the matrix and the determinant sign factor.
fn scramble_fixed(dd: &[i64]) -> (Mat, i64) {
    let n = dd.len();
    let mut m = diag(dd);
    for i in 0..n - 1 {
        for c in 0..n {
            m[i][c] += m[i + 1][c];
        }
    }
    let mut sign = 1i64;
    for i in (0..n).step_by(2) {
        for c in 0..n {
            m[i][c] = -m[i][c];
        }
        sign = -sign;
    }
    m.reverse();
    if (n / 2) % 2 == 1 {
        sign = -sign;
    }
    (m, sign)
}

fn part_bits(bits: u32) -> Tally {
    let mut t = Tally::default();
    let fam = "bit-length-sweep".to_string();
    for variant in 0..6 {
        // det_matz: entries just below 2^59
        let dd = bits_diag(bits, 59, variant);
        let n = dd.len();
        let (m, sign) = scramble_fixed(&dd);
        let det: I4096 = dd.iter().fold(I4096::from(sign), |a, &x| a * I4096::from(x));
        if det_mod_ref(&m, REF_P) != i4096_mod(&det, REF_P) {
            t.bad.push(("what=MACHINERY".into(), format!("bit sweep: constructed determinant disagrees with reference elimination at {bits} bits"), String::new()));
            return t;
        }
        let log2: f64 = dd.iter().map(|&x| (x as f64).log2()).sum();
        if log2 >= 0.6 {
            let id = || format!("target {bits} bits variant {variant}: scrambled diag of {} entries below 2^59, log2|det| = {:.4}", n, log2);
            t.states += 1;
            t.evals += 1;
            check_det_matz(&m, &det, log2, &fam, &id, &mut t.bad);
        }
        // the CRTDetBuilder path through the dense lattice index: entries below 2^29
        if bits <= 123 {
            let dd = bits_diag(bits, 29, variant);
            let (m, _) = scramble_fixed(&dd);
            let h: u128 = dd.iter().map(|&x| x as u128).product();
            let log2: f64 = dd.iter().map(|&x| (x as f64).log2()).sum();
            let id = || format!("target {bits} bits variant {variant}: scrambled diag {:?}, log2(index) = {:.4}", dd, log2);
            t.states += 1;
            let rr = with_redundant(&m);
            t.evals += check_lattice_dense(&rr, h, &fam, &id, &mut t.bad, false);
            t.evals += check_lattice_dense(&m, h, &fam, &id, &mut t.bad, false);
        }
    }
    t
}

// ---- Berlekamp-Massey

fn bm_reference(p: u64, s: &[u64]) -> (usize, Vec<u64>) {
    // textbook Berlekamp-Massey over GF(p): returns (L, C) with C[0] = 1
    let mul = |a: u64, b: u64| ((a as u128 * b as u128) % p as u128) as u64;
    let pw = |mut a: u64, mut e: u64| {
        let mut r = 1u64;
        while e > 0 {
            if e & 1 == 1 {
                r = mul(r, a);
            }
            a = mul(a, a);
            e >>= 1;
        }
        r
    };
    let n = s.len();
    let mut c = vec![0u64; n + 1];
    let mut b = vec![0u64; n + 1];
    c[0] = 1;
    b[0] = 1;
    let (mut l, mut m, mut bb) = (0usize, 1usize, 1u64);
    for i in 0..n {
        let mut d = s[i];
        for j in 1..=l {
            d = (d + mul(c[j], s[i - j])) % p;
        }
        if d == 0 {
            m += 1;
        } else {
            let coef = mul(d, pw(bb, p - 2));
            let tcopy = c.clone();
            for j in 0..=n {
                if j + m <= n && b[j] != 0 {
                    c[j + m] = (c[j + m] + p - mul(coef, b[j])) % p;
                }
            }
            if 2 * l <= i {
                l = i + 1 - l;
                b = tcopy;
                bb = d;
                m = 1;
            } else {
                m += 1;
            }
        }
    }
    c.truncate(l + 1);
    (l, c)
}

fn part_bm(p: u64, size: usize, alphabet: &[u64]) -> Tally {
    // all recurrences of order L <= size with coefficients and initial state over `alphabet`
    let mut t = Tally::default();
    let fam = format!("berlekamp-massey-p{p}-size{size}");
    let n = 2 * size;
    let k = alphabet.len() as u64;
    for l in 0..=size {
        let total = k.pow(2 * l as u32);
        for code in 0..total {
            let mut c = code;
            let mut coef = vec![0u64; l];
            let mut init = vec![0u64; l];
            for x in coef.iter_mut() {
                *x = alphabet[(c % k) as usize];
                c /= k;
            }
            for x in init.iter_mut() {
                *x = alphabet[(c % k) as usize];
                c /= k;
            }
            // a Krylov sequence of a nonsingular matrix satisfies a recurrence with a nonzero
            // last coefficient; degenerate (nilpotent) sequences are outside the routine's use
            if l > 0 && (coef[l - 1] == 0 || init.iter().all(|&x| x == 0)) {
                continue;
            }
            let mut s = init.clone();
            while s.len() < n {
                let i = s.len();
                let mut v = 0u64;
                for j in 0..l {
                    v = ((v as u128 + coef[j] as u128 * s[i - 1 - j] as u128) % p as u128) as u64;
                }
                s.push(v);
            }
            s.truncate(n);
            let (lref, cref) = bm_reference(p, &s);
            if 2 * lref > n {
                continue;
            }
            t.states += 1;
            t.evals += 1;
            let id = || format!("p={p} sequence {:?}", s);
            let ss = s.clone();
            match guarded(|| intsparse::berlekamp_massey(p, &ss)) {
                Err(e) => t.bad.push((format!("routine=berlekamp_massey;what=panic;site={};family={fam}", e.site), format!("berlekamp_massey panicked: {} ({})", e.short(), id()), id())),
                Ok(u) => {
                    if u.is_empty() {
                        if lref != 0 {
                            t.bad.push((format!("routine=berlekamp_massey;what=empty;family={fam}"), format!("empty result for a sequence of linear complexity {lref} ({})", id()), id()));
                        }
                        continue;
                    }
                    let ok = u.len() >= cref.len() && u[..cref.len()] == cref[..] && u[cref.len()..].iter().all(|&x| x == 0);
                    if !ok {
                        t.bad.push((format!("routine=berlekamp_massey;what=wrong-polynomial;family={fam}"), format!("returned {:?}, the minimal connection polynomial is {:?} ({})", &u[..u.len().min(8)], cref, id()), id()));
                    }
                }
            }
            if t.bad.len() > 200 {
                return t;
            }
        }
    }
    t
}

// ---- larger sparse matrices, known by construction

fn scrambled(n: usize, d: &[i64], rounds: usize, salt: u64) -> (Mat, i128) {
    // unimodular scramble of diag(d) with sparse +-1 operations; returns (matrix, determinant)
    let mut m = diag(d);
    let mut det: i128 = d.iter().map(|&x| x as i128).product();
    let mut z = salt;
    for _ in 0..rounds * n {
        z = mix64(z);
        let i = (z % n as u64) as usize;
        let j = ((z >> 16) % n as u64) as usize;
        if i == j {
            continue;
        }
        let s = if (z >> 40) & 1 == 1 { 1 } else { -1 };
        let op = match (z >> 44) % 5 {
            0 | 1 => Op::RowAdd(i as u8, j as u8, s),
            2 | 3 => Op::ColAdd(i as u8, j as u8, s),
            _ => Op::RowSwap(i.min(j) as u8, i.max(j) as u8),
        };
        let mut m2 = m.clone();
        if let Some(f) = apply(&mut m2, op) {
            if m2.iter().all(|r| r.iter().all(|&x| x.abs() < 200)) {
                m = m2;
                det *= f as i128;
            }
        }
    }
    (m, det)
}

fn part_sparse_big(n: usize, variant: u64, pool: bool) -> Tally {
    let mut t = Tally::default();
    // diag: mostly 1, a few small distinct entries so that the determinant fits i128
    let mut d = vec![1i64; n];
    let specials = [2i64, 3, 5, 7, -11, 13, -2, 9];
    for (k, &s) in specials.iter().enumerate() {
        if k < n && (variant >> k) & 1 == 1 {
            d[(k * 5 + 1) % n] *= s;
        }
    }
    assert!(n < 256, "harness: scrambled() uses u8 indices");
    let (m, det) = scrambled(n, &d, 6, variant * 1000 + n as u64);
    let fam = format!("sparse-scrambled-n{n}{}", if pool { "-pool" } else { "" });
    let id = || format!("n={n} variant={variant} diag specials, 6n scramble steps");
    t.states += 1;
    t.evals += 1;
    let tp = if pool { Some(rayon::ThreadPoolBuilder::new().num_threads(3).build().expect("pool")) } else { None };
    check_sparse_det(&m, det, &fam, &id, &mut t.bad, tp.as_ref());
    // detp4 against the reference modulo four primes
    // moduli must satisfy p * norm < 2^63 (the documented overflow bound of the sparse product)
    let p0 = crate::refmodel::prev_prime_u64(1 << 50);
    let p1 = crate::refmodel::prev_prime_u64(p0 - 1);
    let p2 = crate::refmodel::prev_prime_u64((1 << 40) + 12345);
    let p3 = crate::refmodel::prev_prime_u64(1 << 31);
    let ps = [p0, p1, p2, p3];
    let rows = sparse_rows(&m);
    t.evals += 1;
    match guarded(|| SparseMat::new(rows).detp4(ps)) {
        Ok(ds) => {
            for k in 0..4 {
                if ds[k] != mod_i128(det, ps[k]) {
                    let what = if ds[k] == 0 { "zero" } else { "value" };
                    if ds[k] == 0 && krylov_complexity(&m, ps[k]) < n {
                        t.bad.push((format!("routine=sparse_detp4;what=wrong-zero;{DEGENERATE}"), format!("detp4 mod {} = 0 for a matrix of determinant {det} whose Krylov sequence has linear complexity below the dimension ({})", ps[k], id()), String::from("@condition")));
                        break;
                    }
                    t.bad.push((format!("routine=sparse_detp4;what=wrong-{what};family={fam}"), format!("detp4 mod {} = {}, determinant mod p = {} ({})", ps[k], ds[k], mod_i128(det, ps[k]), id()), id()));
                    break;
                }
            }
        }
        Err(e) => t.bad.push((format!("routine=sparse_detp4;what=panic;site={};family={fam}", e.site), format!("detp4 panicked: {} ({})", e.short(), id()), id())),
    }
    // sparse lattice index: the n rows plus redundant ones
    if det != 0 && n >= 8 {
        let mut rr = m.clone();
        let mut z = variant ^ 0xabcdef;
        for _ in 0..n / 2 + 16 {
            // +- combinations of about half of the rows (the lattice is unchanged; dense
            // combinations keep random row subsets nonsingular, as sieve relations are)
            let mut row = vec![0i64; n];
            for a in 0..n {
                z = mix64(z);
                let s = match z % 4 {
                    0 => 1,
                    1 => -1,
                    _ => 0,
                };
                if s != 0 {
                    for col in 0..n {
                        row[col] += s * m[a][col];
                    }
                }
            }
            if row.iter().all(|&x| x.abs() < 1 << 15) && row.iter().any(|&x| x != 0) {
                rr.push(row);
            }
        }
        let rows = sparse_rows(&rr);
        let h = det.unsigned_abs();
        let hf = h as f64;
        t.evals += 1;
        match guarded(|| intsparse::compute_lattice_index(n, &rows, 0.95 * hf, 1.05 * hf, tp.as_ref())) {
            Ok(v) => {
                if v.to_string() != h.to_string() {
                    t.bad.push((format!("routine=sparse_lattice_index;what=wrong-value;family={fam}"), format!("sparse compute_lattice_index returned {v}, true index {h} ({})", id()), id()));
                }
            }
            Err(e) => t.bad.push((format!("routine=sparse_lattice_index;what=panic;site={};family={fam}", e.site), format!("sparse compute_lattice_index panicked (index {h}): {} ({})", e.short(), id()), id())),
        }
    }
    t
}

/// Part G: dense unimodular scrambles of known diagonal forms, dimension 9..60 (blocked
/// elimination on generic residues), determinant known by construction.
fn part_dense_big(n: usize, variant: u64) -> Tally {
    let mut t = Tally::default();
    let mut d = vec![1i64; n];
    let specials = [2i64, -3, 5, 7, -11, 13, 4, 9, 17, -19, 23, 6];
    for (k, &s) in specials.iter().enumerate() {
        if (variant >> (k % 8)) & 1 == 1 || k >= 8 {
            d[(k * 7 + 3) % n] *= s;
        }
    }
    let (m, det) = scrambled(n, &d, 40, variant * 7919 + n as u64);
    let fam = format!("dense-scrambled-n{n}");
    let id = || format!("n={n} variant={variant}: 40n scramble steps of a diagonal form with |det| = {}", det.unsigned_abs());
    if det_mod_ref(&m, REF_P) != mod_i128(det, REF_P) {
        t.bad.push(("what=MACHINERY".into(), format!("dense scramble: tracked determinant disagrees with reference elimination ({})", id()), String::new()));
        return t;
    }
    t.states += 1;
    t.evals += 2;
    check_det_matz(&m, &i4096_of_i128(det), log2_abs_i128(det), &fam, &id, &mut t.bad);
    check_echelon(&m, &|p| mod_i128(det, p), &fam, &id, &mut t.bad);
    if n <= 24 {
        // lattice index and Smith form: a milder scramble (relation-like rows; the routines
        // rely on floating-point Gram-Schmidt and are not meant for ill-conditioned bases),
        // then the heavy one as well
        for (m, det, kind) in [scrambled(n, &d, 2, variant * 104729 + n as u64), (m.clone(), det)].into_iter().zip(["mild", "heavy"]).map(|((a, b), c)| (a, b, c)) {
        let h = det.unsigned_abs();
        let id = || format!("{} [{kind} scramble]", id());
        // redundant dense combinations
        let mut rr = m.clone();
        let mut z = variant ^ 0x5eed;
        for _ in 0..n / 2 + 8 {
            let mut row = vec![0i64; n];
            for a in 0..n {
                z = mix64(z);
                let s = match z % 4 {
                    0 => 1,
                    1 => -1,
                    _ => 0,
                };
                for col in 0..n {
                    row[col] += s * m[a][col];
                }
            }
            if row.iter().any(|&x| x != 0) {
                rr.push(row);
            }
        }
        let id_rd = || format!("{} [with {} redundant rows]", id(), rr.len() - n);
        t.evals += check_lattice_dense(&rr, h, &fam, &id_rd, &mut t.bad, false);
        let ids: Vec<u32> = crate::refmodel::primes_below(400).into_iter().skip(1).take(n).map(|p| p as u32).collect();
        let group = primary(&d.iter().map(|&x| x.unsigned_abs() as u128).collect::<Vec<_>>()).unwrap_or_default();
        t.evals += 1;
        check_snf(&rr, &ids, h, &group, &fam, &id_rd, &mut t.bad);
        }
    }
    t
}

/// Part I: large lattice indices from many small diagonal entries (entries stay relation-like):
/// the Smith form switches arithmetic paths at h = 2^60 (8-row blocks), 2^63 and beyond.
fn part_big_index(target_bits: f64, extra_dim: usize, variant: u64) -> Tally {
    let mut t = Tally::default();
    let pool = [3i64, 5, 7, 11, 13, 17, 19, 23, 29, 31, 37, 41, 43, 47];
    let mut d: Vec<i64> = vec![];
    let mut lg = 0f64;
    let mut k = variant as usize;
    while lg + 1.5 < target_bits {
        let p = pool[k % pool.len()];
        if lg + (p as f64).log2() > target_bits + 0.4 {
            k += 1;
            if d.len() > 60 {
                break;
            }
            // try a smaller prime to land inside the band
            let q = pool.iter().cloned().find(|&q| lg + (q as f64).log2() <= target_bits + 0.4);
            match q {
                Some(q) => {
                    d.push(q);
                    lg += (q as f64).log2();
                }
                None => break,
            }
            continue;
        }
        d.push(p);
        lg += (p as f64).log2();
        k += 1;
    }
    for _ in 0..extra_dim {
        d.push(1);
    }
    let n = d.len();
    if n < 3 || n > 60 {
        return t;
    }
    let h: u128 = d.iter().map(|&x| x as u128).product();
    let group = primary(&d.iter().map(|&x| x as u128).collect::<Vec<_>>()).unwrap_or_default();
    let ids: Vec<u32> = crate::refmodel::primes_below(400).into_iter().skip(1).take(n).map(|p| p as u32).collect();
    for (rounds, kind) in [(2usize, "mild"), (5, "medium")] {
        let (m, det) = scrambled(n, &d, rounds, variant * 7907 + n as u64 + rounds as u64);
        if det.unsigned_abs() != h {
            t.bad.push(("what=MACHINERY".into(), "big index: tracked determinant".into(), String::new()));
            return t;
        }
        let mut rr = m.clone();
        let mut z = variant ^ 0xb16;
        for _ in 0..n / 2 + 8 {
            let mut row = vec![0i64; n];
            for a in 0..n {
                z = mix64(z);
                let s = match z % 4 {
                    0 => 1,
                    1 => -1,
                    _ => 0,
                };
                for col in 0..n {
                    row[col] += s * m[a][col];
                }
            }
            if row.iter().any(|&x| x != 0) {
                rr.push(row);
            }
        }
        let fam = format!("big-index-{}bits", target_bits);
        let id = || format!("n={n} diag {:?} (log2 h = {:.2}), {kind} scramble, {} redundant rows, variant {variant}", d, (h as f64).log2(), rr.len() - n);
        t.states += 1;
        if h < 1u128 << 124 {
            t.evals += check_lattice_dense(&rr, h, &fam, &id, &mut t.bad, false);
            t.evals += 1;
            check_snf(&rr, &ids, h, &group, &fam, &id, &mut t.bad);
        }
    }
    t
}

fn rank_mod_p(m: &Mat, p: u64) -> usize {
    let n = m.len();
    let mul = |a: u64, b: u64| ((a as u128 * b as u128) % p as u128) as u64;
    let pw = |mut a: u64, mut e: u64| {
        let mut r = 1u64;
        while e > 0 {
            if e & 1 == 1 {
                r = mul(r, a);
            }
            a = mul(a, a);
            e >>= 1;
        }
        r
    };
    let mut a: Vec<Vec<u64>> = m.iter().map(|r| r.iter().map(|&x| (x as i128).rem_euclid(p as i128) as u64).collect()).collect();
    let mut rank = 0;
    for col in 0..n {
        let Some(pv) = (rank..n).find(|&i| a[i][col] != 0) else { continue };
        a.swap(pv, rank);
        let inv = pw(a[rank][col], p - 2);
        for i in rank + 1..n {
            if a[i][col] == 0 {
                continue;
            }
            let f = mul(a[i][col], inv);
            for j in col..n {
                let v = mul(f, a[rank][j]);
                a[i][j] = ((a[i][j] as u128 + p as u128 - v as u128) % p as u128) as u64;
            }
        }
        rank += 1;
    }
    rank
}

/// Part K: the index is a small multiple of one of the CRT primes the dense routines work with
/// (the determinant of a minor is then 0 modulo that prime, with rows that are independent over
/// the integers): 2x2 and 3x3 presentations [[a, b], [1, d]] with a*d - b = k*q.
fn part_crt_multiple() -> Tally {
    let mut t = Tally::default();
    // the primes as CRTDetBuilder::det walks them: below (2^61 / 30) * 30 - 1, steps of 30
    let mut qs = vec![];
    let mut p: u64 = ((1u64 << 61) / 30) * 30 - 1;
    while qs.len() < 3 {
        p -= 30;
        while !crate::refmodel::is_prime_u64(p) {
            p -= 30;
        }
        qs.push(p);
    }
    for (qi, &q) in qs.iter().enumerate() {
        for k in 1..=3u128 {
            let h = k * q as u128;
            let d = (h as f64).sqrt() as i64;
            let a = d + 2;
            let b = (a as i128 * d as i128 - h as i128) as i64;
            debug_assert!(a as i128 * d as i128 - b as i128 == h as i128);
            for dim in [2usize, 3] {
                let mut rows: Mat = if dim == 2 { vec![vec![a, b], vec![1, d]] } else { vec![vec![a, b, 0], vec![1, d, 0], vec![0, 0, 1]] };
                // one redundant row (sum of the first two), as relation matrices have
                let extra: Vec<i64> = (0..dim).map(|c| rows[0][c] + rows[1][c]).collect();
                rows.push(extra);
                let id = || format!("{dim}x{dim} presentation [[{a}, {b}], [1, {d}]] (+ a redundant row) of index {k} x CRT prime #{qi} = {q}");
                t.states += 1;
                t.evals += check_lattice_dense(&rows, h, "crt-prime-multiple", &id, &mut t.bad, true);
            }
        }
    }
    t
}

/// Part L: a lattice whose cheapest n-1 rows span a sublattice that is not saturated: rows
/// d_i e_i (i = 1..4), m*d_0 e_0, d_5 e_5 and d_0 e_0 + d_5 e_5. Every minor built on the short
/// rows is m*h, the index is h = prod d_i: the routine has to divide the gcd of the minors by the
/// cofactor m, for indices up to the 2^126 ceiling of its precondition.
fn part_unsaturated(target_bits: f64, m: i64) -> Tally {
    let mut t = Tally::default();
    let each = 2f64.powf(target_bits / 6.0);
    // d_0 well below, d_5 well above the four middle ones (row order by norm)
    let mut d: Vec<i64> = vec![crate::refmodel::next_prime_u64((each * 0.36) as u64) as i64];
    let mut x = each as u64;
    for _ in 0..4 {
        x = crate::refmodel::next_prime_u64(x + 1);
        d.push(x as i64);
    }
    d.push(crate::refmodel::next_prime_u64((each / 0.36) as u64) as i64);
    let h: u128 = d.iter().map(|&v| v as u128).product();
    if h >= 1u128 << 126 {
        return t;
    }
    let n = 6;
    let mut rows: Mat = vec![];
    for i in 1..5 {
        let mut v = vec![0i64; n];
        v[i] = d[i];
        rows.push(v);
    }
    let mut v = vec![0i64; n];
    v[0] = m * d[0];
    rows.push(v);
    let mut v = vec![0i64; n];
    v[5] = d[5];
    rows.push(v);
    let mut v = vec![0i64; n];
    v[0] = d[0];
    v[5] = d[5];
    rows.push(v);
    let hf = h as f64;
    for (variant, (lo, hi)) in [(hf, hf), (hf * 0.98, hf * 1.01)].into_iter().enumerate() {
        // the routine widens its bracket before asserting hmax < 2^126 (its precondition)
        let widened = (1.1 * hi).min(hi + 3.0 * (hi - lo));
        if widened.log2() >= 126.0 {
            continue;
        }
        let mut rr = rows.clone();
        if variant == 1 {
            rr.reverse();
        }
        t.states += 1;
        t.evals += 1;
        let id = format!("diag {:?} with the row {}*d0*e0 and d0*e0+d5*e5 (log2 h = {:.3}), bounds [{:e}, {:e}]", d, m, hf.log2(), lo, hi);
        match guarded(|| intdense::compute_lattice_index(&rr, lo, hi)) {
            Ok(v) => {
                if v != h {
                    t.bad.push(("routine=lattice_index;what=wrong-value;family=unsaturated-base".to_string(), format!("compute_lattice_index returned {v} for a row lattice of index {h} ({id})"), id.clone()));
                }
            }
            Err(e) => t.bad.push((format!("routine=lattice_index;what=panic;site={};family=unsaturated-base", e.site), format!("compute_lattice_index panicked for a row lattice of index {h}: {} ({id})", e.short()), id.clone())),
        }
    }
    t
}

/// Part J: dense matrices with small entries whose quotient is cyclic of large order
/// (pivots 1, ..., 1, h: the Smith form's 8-row blocked elimination with a large modulus).
/// The determinant comes from Bareiss elimination; the quotient is cyclic iff the rank modulo
/// every prime divisor of h is n - 1 (checked; other matrices are skipped).
fn part_cyclic_dense(n: usize, range: i64, seed: u64) -> Tally {
    let mut t = Tally::default();
    let mut z = seed.wrapping_mul(0x9e37_79b9).wrapping_add(n as u64);
    let mut m: Mat = vec![vec![0; n]; n];
    for i in 0..n {
        for j in 0..n {
            z = mix64(z);
            m[i][j] = (z % (2 * range as u64 + 1)) as i64 - range;
        }
    }
    let det = det_bareiss(&m);
    let Some(dabs) = det.abs().to_u128() else { return t };
    if dabs < 1u128 << 40 || dabs >= 1u128 << 64 {
        return t;
    }
    let h = dabs as u64;
    let fac = factor_rho(h);
    if fac.iter().any(|&(p, _)| rank_mod_p(&m, p) != n - 1) {
        return t; // not cyclic
    }
    let group: Vec<(u64, u32)> = fac.clone();
    let ids: Vec<u32> = crate::refmodel::primes_below(400).into_iter().skip(1).take(n).map(|p| p as u32).collect();
    let mut rr = m.clone();
    let mut zz = seed ^ 0xc1c;
    for _ in 0..n / 2 + 8 {
        let mut row = vec![0i64; n];
        for a in 0..n {
            zz = mix64(zz);
            let s = match zz % 4 {
                0 => 1,
                1 => -1,
                _ => 0,
            };
            for col in 0..n {
                row[col] += s * m[a][col];
            }
        }
        if row.iter().any(|&x| x != 0) {
            rr.push(row);
        }
    }
    let band = ((h as f64).log2() * 2.0).floor() / 2.0;
    let fam = format!("cyclic-dense-n{n}-2^{band}");
    let id = || format!("n={n} entries in [-{range},{range}] seed {seed}: cyclic quotient of order {h} (log2 = {:.2}), {} redundant rows", (h as f64).log2(), rr.len() - n);
    t.states += 1;
    t.notes.push(format!("family {fam}"));
    t.evals += check_lattice_dense(&rr, h as u128, &fam, &id, &mut t.bad, false);
    t.evals += 1;
    check_snf(&rr, &ids, h as u128, &group, &fam, &id, &mut t.bad);
    // determinant routines on the same dense matrix
    let det_i = if det.is_negative() { -(dabs as i128) } else { dabs as i128 };
    t.evals += 2;
    check_det_matz(&m, &i4096_of_i128(det_i), log2_abs_i128(det_i), &fam, &id, &mut t.bad);
    check_echelon(&m, &|p| mod_i128(det_i, p), &fam, &id, &mut t.bad);
    t
}

/// Part K: block anti-diagonal matrices [[0, A], [B, 0]] with dense scrambled blocks: the first
/// columns start with a run of zeros, so the pivot order of the echelon builder is not the
/// identity when the 8-row blocked elimination runs (dimension 18 and more).
fn part_antidiag(a: usize, b: usize, variant: u64) -> Tally {
    let mut t = Tally::default();
    let da: Vec<i64> = (0..a).map(|i| [1i64, 1, 2, 1, -3, 1, 1, 5, 1, 1, 7, 1][(i + variant as usize) % 12]).collect();
    let db: Vec<i64> = (0..b).map(|i| [1i64, -1, 1, 3, 1, 1, 2, 1, 1, 1, 11, 1][(i + 2 * variant as usize) % 12]).collect();
    let (ma, deta) = scrambled(a, &da, 30, variant * 31 + a as u64);
    let (mb, detb) = scrambled(b, &db, 30, variant * 37 + b as u64 + 1000);
    let n = a + b;
    let mut m: Mat = vec![vec![0; n]; n];
    for i in 0..a {
        for j in 0..a {
            m[i][b + j] = ma[i][j];
        }
    }
    for i in 0..b {
        for j in 0..b {
            m[a + i][j] = mb[i][j];
        }
    }
    let sign: i128 = if (a * b) % 2 == 1 { -1 } else { 1 };
    let det = sign * deta * detb;
    let fam = format!("anti-diagonal-{a}+{b}");
    let id = || format!("[[0, A],[B, 0]] with A {a}x{a}, B {b}x{b} scrambled diagonal forms, variant {variant}, det {det}");
    if det_mod_ref(&m, REF_P) != mod_i128(det, REF_P) {
        t.bad.push(("what=MACHINERY".into(), format!("anti-diagonal: tracked determinant disagrees with reference elimination ({})", id()), String::new()));
        return t;
    }
    t.states += 1;
    t.evals += 2;
    if det.abs() >= 2 {
        check_det_matz(&m, &i4096_of_i128(det), log2_abs_i128(det), &fam, &id, &mut t.bad);
    }
    check_echelon(&m, &|p| mod_i128(det, p), &fam, &id, &mut t.bad);
    // rows shuffled by a fixed rotation as well (other pivot orders)
    let mut m2 = m.clone();
    m2.rotate_left(n / 3);
    let s2: i128 = if ((n / 3) * (n - n / 3)) % 2 == 1 { -1 } else { 1 };
    let det2 = det * s2;
    if det_mod_ref(&m2, REF_P) != mod_i128(det2, REF_P) {
        t.bad.push(("what=MACHINERY".into(), format!("anti-diagonal: rotated determinant sign ({})", id()), String::new()));
        return t;
    }
    let id2 = || format!("{} rows rotated by {}", id(), n / 3);
    t.evals += 2;
    if det2.abs() >= 2 {
        check_det_matz(&m2, &i4096_of_i128(det2), log2_abs_i128(det2), &fam, &id2, &mut t.bad);
    }
    check_echelon(&m2, &|p| mod_i128(det2, p), &fam, &id2, &mut t.bad);
    t
}

/// Part H: lattices whose successive minors need different numbers of CRT moduli: the rows are
/// r0 = (d0,0,0), r1 = (1,d1,0), k1*r2 + r0, k2*r2 + r1 with r2 = (0,1,1) and gcd(k1,k2) = 1, so
/// the lattice is the one generated by r0, r1, r2 (index d0*d1) but the first minors are k1*h
/// and k2*h (the first too large a multiple to be resolved, the second crossing a 61-bit step).
fn part_minor_steps(a: u32, b: u32) -> Tally {
    let mut t = Tally::default();
    let (d0, d1) = ((1i64 << a) - 3, (1i64 << b) - 5);
    let h = d0 as u128 * d1 as u128;
    // k2 > d0 keeps the long rows last in the routine's norm order
    for (k1, k2) in [(20011i64, (1i64 << (a + 1)) + 1), (65537, (1 << (a + 1)) + 43), (30029, (1 << (a + 2)) + 7)] {
        if (k1 as u64).gcd(&(k2 as u64)) != 1 {
            continue;
        }
        let rows: Mat = vec![vec![d0, 0, 0], vec![1, d1, 0], vec![d0, k1, k1], vec![1, d1 + k2, k2]];
        // machinery: the gcd of all 3x3 minors is the index
        let g = all_minors_gcd(&to_i128m(&rows), 3);
        if g.unsigned_abs() != h {
            t.bad.push(("what=MACHINERY".into(), format!("minor-step lattice: gcd of minors {g} != {h}"), String::new()));
            return t;
        }
        let fam = "minor-steps".to_string();
        let id = || format!("rows (d0,0,0),(1,d1,0),(d0,k1,k1),(1,d1+k2,k2) with d0=2^{a}-3 d1=2^{b}-5 k1={k1} k2={k2}");
        t.states += 1;
        t.evals += check_lattice_dense(&rows, h, &fam, &id, &mut t.bad, false);
        // and in the other row order of the two long rows
        let rows2: Mat = vec![rows[0].clone(), rows[1].clone(), rows[3].clone(), rows[2].clone()];
        t.evals += check_lattice_dense(&rows2, h, &fam, &id, &mut t.bad, false);
    }
    t
}

// ------------------------------------------------------------------ run

fn fnv64(s: &str) -> u64 {
    let mut h: u64 = 0xcbf29ce484222325;
    for b in s.bytes() {
        h ^= b as u64;
        h = h.wrapping_mul(0x100000001b3);
    }
    h
}

/// known_inputs/C19.txt: "<routine;kind;site>\t<hash of the input description>\t<description>".
/// Committed; never written by a check run.
fn load_known_inputs(ctx: &Ctx) -> HashSet<(String, u64)> {
    let mut set = HashSet::new();
    let p = ctx.verif_dir.join("known_inputs").join("C19.txt");
    if let Ok(txt) = std::fs::read_to_string(p) {
        for l in txt.lines() {
            let mut it = l.split('\t');
            if let (Some(g), Some(h)) = (it.next(), it.next()) {
                if let Ok(h) = u64::from_str_radix(h, 16) {
                    set.insert((g.to_string(), h));
                }
            }
        }
    }
    set
}

enum Job {
    Small(usize, i64, i64, (u64, u64)),
    Perms(usize, usize, (usize, usize)),
    Hist(Seed, usize, Option<Vec<(u8, u8)>>, usize, bool, (usize, usize)),
    Bits(u32),
    Bm(u64, usize, Vec<u64>),
    SparseBig(usize, u64, bool),
    DenseBig(usize, u64),
    MinorSteps(u32, u32),
    BigIndex(f64, usize, u64),
    CyclicDense(usize, i64, u64),
    AntiDiag(usize, usize, u64),
    CrtMultiple,
    Unsaturated(f64, i64),
}

fn run_job(j: &Job) -> Tally {
    match j {
        Job::Small(n, lo, hi, s) => part_small(*n, *lo, *hi, *s),
        Job::Perms(n, e, s) => part_perms(*n, *e, *s),
        Job::Hist(seed, depth, pairs, cap, sp, s) => part_histories(seed, *depth, pairs.clone(), *cap, *sp, *s),
        Job::Bits(b) => part_bits(*b),
        Job::Bm(p, size, a) => part_bm(*p, *size, a),
        Job::SparseBig(n, v, pool) => part_sparse_big(*n, *v, *pool),
        Job::DenseBig(n, v) => part_dense_big(*n, *v),
        Job::MinorSteps(a, b) => part_minor_steps(*a, *b),
        Job::BigIndex(b, e, v) => part_big_index(*b, *e, *v),
        Job::CyclicDense(n, r, v) => part_cyclic_dense(*n, *r, *v),
        Job::AntiDiag(a, b, v) => part_antidiag(*a, *b, *v),
        Job::CrtMultiple => part_crt_multiple(),
        Job::Unsaturated(b, m) => part_unsaturated(*b, *m),
    }
}

pub fn run(ctx: &Ctx) -> Report {
    let mut rep = Report::new("model_checking");
    let q = ctx.quick();
    let mut jobs: Vec<Job> = vec![];
    // A
    jobs.push(Job::Small(2, -3, 3, (0, 1)));
    for s in 0..8 {
        jobs.push(Job::Small(3, -1, 1, (s, 8)));
    }
    if !q {
        for s in 0..64 {
            jobs.push(Job::Small(3, -2, 2, (s, 64)));
        }
        for s in 0..256 {
            jobs.push(Job::Small(4, -1, 1, (s, 256)));
        }
    }
    // B
    for n in 1..=ctx.pick(6, 8) {
        let parts = if n >= 7 { 16 } else { 1 };
        for s in 0..parts {
            jobs.push(Job::Perms(n, 0, (s, parts)));
        }
    }
    // embedded: dimension 10..12 triggers the 8-row blocked elimination
    for (n, e) in if q { vec![(5usize, 5usize), (6, 6)] } else { vec![(5, 5), (6, 6), (7, 4), (8, 3)] } {
        let parts = if n >= 7 { 16 } else { 2 };
        for s in 0..parts {
            jobs.push(Job::Perms(n, e, (s, parts)));
        }
    }
    // C: histories
    let seeds3: Vec<Seed> = vec![
        Seed { d: vec![1, 1, 2], ids: vec![2, 3, 5] },
        Seed { d: vec![2, 2, 3], ids: vec![2, 3, 5] },
        Seed { d: vec![2, 4, 1], ids: vec![2, 3, 1009] },
        Seed { d: vec![6, 10, 15], ids: vec![2, 3, 5] },
        Seed { d: vec![-3, 3, 9], ids: vec![3, 7, 11] },
        Seed { d: vec![1, 1, 1], ids: vec![2, 3, 5] },
        Seed { d: vec![1, 2, 1000003], ids: vec![2, 3, 401] },
        Seed { d: vec![1, 1, (1i64 << 40) + 15], ids: vec![2, 3, 5] },
        Seed { d: vec![65536, 3, 1 << 20], ids: vec![2, 3, 5] },
        // singular: the echelon builder must report rank deficiency, the sparse determinant 0
        Seed { d: vec![0, 1, 2], ids: vec![2, 3, 5] },
        Seed { d: vec![0, 0, 3], ids: vec![2, 3, 5] },
    ];
    let d3 = ctx.pick(3, 4);
    for s in seeds3 {
        let parts = if q { 4 } else { 32 };
        for k in 0..parts {
            jobs.push(Job::Hist(Seed { d: s.d.clone(), ids: s.ids.clone() }, d3, None, 3_000_000, true, (k, parts)));
        }
    }
    let seeds2: Vec<Seed> = vec![
        Seed { d: vec![2, 2], ids: vec![2, 3] },
        Seed { d: vec![1, 12], ids: vec![2, 3] },
        Seed { d: vec![2, 6], ids: vec![2, 1009] },
        Seed { d: vec![4, 1 << 30], ids: vec![2, 3] },
    ];
    for s in seeds2 {
        jobs.push(Job::Hist(s, ctx.pick(5, 7), None, 3_000_000, true, (0, 1)));
    }
    let seeds4: Vec<Seed> = vec![
        Seed { d: vec![1, 2, 2, 5], ids: vec![2, 3, 5, 7] },
        Seed { d: vec![3, 3, 3, 1], ids: vec![2, 3, 5, 701] },
        Seed { d: vec![1, 1, 4, 6], ids: vec![2, 3, 5, 7] },
    ];
    for s in seeds4 {
        let parts = if q { 4 } else { 16 };
        for k in 0..parts {
            jobs.push(Job::Hist(Seed { d: s.d.clone(), ids: s.ids.clone() }, ctx.pick(2, 3), None, 3_000_000, true, (k, parts)));
        }
    }
    // dimension 10 and 12: depth 2 over a restricted pair set (first rows/cols and a far pair)
    let pairs10: Vec<(u8, u8)> = vec![(0, 1), (1, 0), (0, 9), (9, 0), (3, 8), (8, 3), (4, 5), (5, 4), (9, 8), (2, 7)];
    let seeds10: Vec<Seed> = vec![
        Seed { d: vec![1, 1, 1, 1, 1, 1, 2, 2, 3, 5], ids: (0..10).map(|i| PRIMES[i] as u32).collect() },
        Seed { d: vec![-1, 1, 7, 1, -1, 1, 1, 4, 1, 6], ids: (0..10).map(|i| PRIMES[i] as u32).collect() },
        Seed { d: vec![(1 << 59) - 55, 3, -((1 << 58) + 11), 1, 1, 1, (1 << 57) + 29, 1, 5, 1], ids: (0..10).map(|i| PRIMES[i] as u32).collect() },
        Seed { d: vec![1, 1, 0, 1, 2, 1, 1, 3, 1, 1], ids: (0..10).map(|i| PRIMES[i] as u32).collect() },
    ];
    for s in seeds10 {
        let parts = if q { 2 } else { 8 };
        for k in 0..parts {
            jobs.push(Job::Hist(Seed { d: s.d.clone(), ids: s.ids.clone() }, ctx.pick(2, 3), Some(pairs10.clone()), 2_000_000, true, (k, parts)));
        }
    }
    // D
    for b in 1..=ctx.pick(400u32, 1300) {
        jobs.push(Job::Bits(b));
    }
    // E: Berlekamp-Massey
    jobs.push(Job::Bm(3, 3, vec![0, 1, 2]));
    jobs.push(Job::Bm(5, 2, vec![0, 1, 2, 3, 4]));
    jobs.push(Job::Bm(5, 3, vec![0, 1, 2, 4]));
    jobs.push(Job::Bm(7, 2, vec![0, 1, 2, 3, 4, 5, 6]));
    let pbig = crate::refmodel::prev_prime_u64(1 << 60);
    jobs.push(Job::Bm(pbig, 3, vec![0, 1, pbig - 1, (pbig + 1) / 2]));
    let p63 = crate::refmodel::prev_prime_u64(1 << 63);
    jobs.push(Job::Bm(p63, 2, vec![0, 1, p63 - 1, 3, 1 << 62]));
    // longer sequences over the smallest fields: degree drops of more than one in the
    // Euclidean remainder sequence are frequent there
    jobs.push(Job::Bm(3, 4, vec![0, 1, 2]));
    jobs.push(Job::Bm(3, 5, vec![0, 1, 2]));
    jobs.push(Job::Bm(5, 4, vec![0, 1, 2, 3, 4]));
    jobs.push(Job::Bm(7, 3, vec![0, 1, 2, 3, 4, 5, 6]));
    jobs.push(Job::Bm(65537, 4, vec![0, 1, 65536, 2]));
    jobs.push(Job::Bm(pbig, 4, vec![0, 1, pbig - 1, 2]));
    if !q {
        jobs.push(Job::Bm(3, 6, vec![0, 1, 2]));
        jobs.push(Job::Bm(5, 5, vec![0, 1, 2, 3, 4]));
        jobs.push(Job::Bm(3, 4, vec![0, 1, 2]));
        jobs.push(Job::Bm(7, 3, vec![0, 1, 2, 3, 4, 5, 6]));
        jobs.push(Job::Bm(65537, 4, vec![0, 1, 65536, 2]));
        jobs.push(Job::Bm(pbig, 4, vec![0, 1, pbig - 1, 2]));
    }
    // F: larger sparse matrices
    let ns: Vec<usize> = if q { vec![8, 9, 12, 16, 33, 64] } else { vec![8, 9, 10, 12, 15, 16, 17, 31, 32, 33, 48, 64, 100, 128, 200, 250] };
    for &n in &ns {
        for v in 0..ctx.pick(4u64, 16) {
            jobs.push(Job::SparseBig(n, v * 37 + 5, false));
        }
        jobs.push(Job::SparseBig(n, 255, true));
    }

    // G: dense, dimension up to 60
    let nd: Vec<usize> = if q { vec![9, 10, 11, 12, 16, 17, 18, 24, 25, 33, 40, 60] } else { (9..=60).collect() };
    for &n in &nd {
        for v in 0..ctx.pick(6u64, 40) {
            jobs.push(Job::DenseBig(n, v * 29 + 3));
        }
    }
    // H: minors crossing a CRT modulus-count step inside one cached builder
    for a in 15..=24u32 {
        // d1 < d0 keeps r0, r1 the two shortest rows (a saturated pair)
        for b in [a, a - 1, a - 3] {
            jobs.push(Job::MinorSteps(a, b));
        }
    }
    // I: large indices on both sides of the Smith form's arithmetic switches
    for tb in [40.0f64, 59.5, 60.5, 61.5, 62.5, 63.5, 64.5, 80.0, 100.0, 120.0] {
        for v in 0..ctx.pick(6u64, 40) {
            jobs.push(Job::BigIndex(tb, (v % 3) as usize, v));
        }
    }
    // J: dense, cyclic quotient of order up to 2^64
    for (n, r) in [(10usize, 40i64), (11, 30), (12, 22), (13, 18), (14, 16), (15, 12), (16, 10)] {
        for v in 0..ctx.pick(40u64, 400) {
            jobs.push(Job::CyclicDense(n, r, v));
            if jobs.iter().all(|j| !matches!(j, Job::CrtMultiple)) {
                jobs.push(Job::CrtMultiple);
                for b in [60.0, 100.0, 118.0, 123.0, 124.5, 125.3, 125.6, 125.9] {
                    for m in [2i64, 3, 5, 7] {
                        jobs.push(Job::Unsaturated(b, m));
                    }
                }
            }
        }
    }
    // K: block anti-diagonal, dimension 10..40
    for (a, b) in [(5usize, 5usize), (9, 9), (9, 10), (10, 9), (12, 8), (8, 12), (16, 16), (17, 9), (9, 17), (20, 20), (3, 21), (21, 3)] {
        for v in 0..ctx.pick(3u64, 20) {
            jobs.push(Job::AntiDiag(a, b, v));
        }
    }
    if let Some(k) = std::env::var("VERIF_C19_ONLY").ok().and_then(|s| s.parse::<usize>().ok()) {
        // debugging aid: a single job
        let j = jobs.swap_remove(k);
        jobs = vec![j];
    }
    let jobs = Arc::new(jobs);
    let njobs = jobs.len();
    let f = {
        let jobs = jobs.clone();
        Arc::new(move |k: usize| run_job(&jobs[k])) as Arc<dyn Fn(usize) -> Tally + Send + Sync>
    };
    let mut total = Tally::default();
    match run_watched(njobs, 16, std::time::Duration::from_secs(ctx.pick(600, 7200)), f) {
        Ok(rs) => {
            for r in rs.into_iter().flatten() {
                total.merge(r);
            }
        }
        Err(k) => {
            rep.violation("what=hang".into(), format!("job {k} did not finish within the cap"), J::obj(vec![("job", J::from(k))]));
        }
    }
    // Failures are identified by (routine, kind, site) and by the failing input itself: inputs
    // listed in known_inputs/C19.txt are recorded findings; any other failing input is new.
    let known = load_known_inputs(ctx);
    let dump = std::env::var("VERIF_C19_DUMP").ok();
    let mut dump_lines: Vec<String> = vec![];
    let mut listed: std::collections::BTreeMap<String, (u64, String)> = Default::default();
    let mut fresh: std::collections::BTreeMap<String, (u64, String, String)> = Default::default();
    for (k, w, id) in std::mem::take(&mut total.bad) {
        if k.starts_with("what=MACHINERY") {
            rep.machinery_errors.push(w);
            continue;
        }
        if id == "@condition" {
            let e = listed.entry(k).or_insert((0, w));
            e.0 += 1;
            continue;
        }
        // group = key without the family
        let group: String = k.split(';').filter(|p| !p.starts_with("family=")).collect::<Vec<_>>().join(";");
        let h = fnv64(&format!("{group}|{id}"));
        if dump.is_some() {
            dump_lines.push(format!("{group}\t{:016x}\t{}", h, id.replace('\t', " ")));
        }
        if known.contains(&(group.clone(), h)) {
            let e = listed.entry(format!("{group};inputs=listed")).or_insert((0, w));
            e.0 += 1;
        } else {
            let e = fresh.entry(k).or_insert((0, w, format!("{:016x}", h)));
            e.0 += 1;
        }
    }
    if let Some(path) = dump {
        dump_lines.sort();
        dump_lines.dedup();
        let _ = std::fs::write(&path, dump_lines.join("\n") + "\n");
    }
    for (k, (c, w)) in listed {
        rep.violation(k, format!("{c} recorded failing inputs re-observed, e.g. {w}"), J::obj(vec![("case", J::s(w.clone())), ("count", J::from(c))]));
    }
    for (k, (c, w, h)) in fresh {
        rep.violation(format!("{k};input={h}"), format!("{w} [{c} unlisted failing inputs with this routine/kind/family]"), J::obj(vec![("case", J::s(w.clone())), ("count", J::from(c))]));
    }
    rep.evaluations = total.evals;
    rep.nontrivial = total.evals;
    rep.states = total.states;
    rep.transitions = total.transitions;
    rep.set("jobs", J::from(njobs));
    let mut note_counts: std::collections::BTreeMap<String, u64> = Default::default();
    for n in &total.notes {
        *note_counts.entry(n.clone()).or_default() += 1;
    }
    rep.set("notes", J::A(note_counts.iter().map(|(k, c)| J::s(format!("{k}: {c}"))).collect()));
    rep.sample(J::obj(vec![("family", J::s("all 3x3 matrices over {-1,0,1}")), ("routines", J::s("det_matz (|det|>=2), GFpEchelonBuilder mod 4 primes, compute_lattice_index"))]));
    rep.sample(J::obj(vec![("family", J::s("histories from diag(6,10,15)")), ("alphabet", J::s("row/col add +-1, swaps, negations (36 ops)")), ("depth", J::from(d3))]));
    rep.sample(J::obj(vec![("family", J::s("bit-length sweep")), ("bits", J::s(format!("1..{}", ctx.pick(400, 1300))))]));
    rep.rule = format!(
        "(A) EVERY 2x2 matrix over -3..3 and 3x3 over -1..1{}: det_matz with the exact estimate (|det| >= 2), GFpEchelonBuilder determinant modulo 4 primes (all, including det 0 and +-1), dense lattice index of the rows; reference = cofactor expansion. (B) EVERY permutation of n <= {} elements scaled by distinct primes under 3 sign patterns, alone and embedded behind a dense unitriangular block (dimension 10..12, the 8-row blocked elimination): determinant with sign. (C) EVERY matrix reachable within depth {} (n=3), {} (n=2), {} (n=4), {} (n=10, restricted pair set) from known diagonal forms by row/column additions (+-1), swaps and negations; the determinant sign, the lattice index and the quotient group are tracked along the history; each state is given to det_matz, the echelon builder, dense compute_lattice_index (five brackets containing the index; with and without redundant rows), SmithNormalForm::new + reduce (diagonal, product = index, primary decomposition equal to the known group) and SparseMat::detz. (D) one scrambled matrix for EVERY determinant bit-length 1..{} x 3 sub-bit variants (1..22 CRT primes): det_matz, and the CRTDetBuilder path through compute_lattice_index up to 124 bits. (E) Berlekamp-Massey on EVERY linear recurrence of order <= size over small fields / edge alphabets of 60- and 63-bit primes against a textbook implementation. (K) 2x2 and 3x3 presentations whose index is 1..3 times one of the first three CRT primes of the dense routines; (L) six-generator lattices whose short rows span a sublattice of index 2, 3, 5, 7 in its saturation, for indices of 60..125.9 bits (the routine must divide the gcd of its minors by that cofactor, up to its 2^126 ceiling). (F) sparse determinant, detp4 and sparse lattice index on scrambled diagonal forms of dimension {:?}, with and without a pool. A panic inside the documented precondition counts as a failure to return the value.",
        if q { "" } else { ", 3x3 over -2..2, 4x4 over -1..1" },
        ctx.pick(6, 8),
        d3,
        ctx.pick(5, 7),
        ctx.pick(2, 3),
        ctx.pick(2, 3),
        ctx.pick(400, 1300),
        ns
    );
    rep.assumptions.push("det_matz precondition: estimate = exact log2|det| and |det| >= 2 (the routine asserts a positive bit count)".into());
    rep.assumptions.push("lattice-index precondition: hmin <= index <= hmax with hmax/hmin < 1.5 after the routine's own widening".into());
    rep.assumptions.push("SparseMat entries fit i16 and indices u16 (constructor casts)".into());
    rep
}
