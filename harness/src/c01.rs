//! C01 / C02 / C03: bounded-exhaustive sweep of `factor()` over explicit
//! families of (n, selector, preferences).

use std::collections::BTreeMap;
use std::time::Duration;

use yamaquasi::{Algo, Uint};

use crate::common::*;
use crate::refmodel::{self as rm, W};
use crate::sweep::*;

fn u(x: u64) -> Uint {
    Uint::from_digit(x)
}

fn bits_limit(a: Algo) -> u32 {
    match a {
        // asserted preconditions in factor_impl
        Algo::Rho | Algo::Squfof | Algo::Qs64 => 64,
        // 128-bit arithmetic by construction (name of the selector)
        Algo::Ecm128 => 128,
        _ => 500,
    }
}

/// The pool of primes placed where the code branches.
pub fn prime_pool() -> Vec<Uint> {
    let mut v: Vec<Uint> = vec![];
    for p in [211u64, 223, 227, 1009, 4093, 4099, 65521, 65537] {
        v.push(u(p));
    }
    for k in [20u32, 24, 26, 31, 32, 36, 40, 45, 48, 52, 56, 63] {
        v.push(u(rm::next_prime_u64(1u64 << k)));
    }
    for k in [26u32, 31, 32, 52, 63] {
        v.push(u(rm::prev_prime_u64(1u64 << k)));
    }
    v.push(u(rm::prev_prime_u64(u64::MAX)));
    for k in [64u32, 70, 80, 85, 96, 100] {
        let p = rm::next_prime_w(&(W::ONE << k));
        v.push(rm::w_to(&p));
    }
    let p = rm::prev_prime_w(&(W::ONE << 85));
    v.push(rm::w_to(&p));
    v.sort();
    v.dedup();
    v
}

fn primes_between(lo: u64, hi: u64) -> Vec<u64> {
    rm::primes_below(hi).into_iter().filter(|&p| p >= lo).collect()
}

pub struct Expect {
    /// known prime factorization (sorted, with multiplicity) when the case
    /// was built from primes; None => use reference factoring/primality.
    pub primes: Option<Vec<Uint>>,
}

pub struct Domain {
    pub cases: Vec<Case>,
    pub expect: Vec<Expect>,
}

impl Domain {
    fn new() -> Domain {
        Domain {
            cases: vec![],
            expect: vec![],
        }
    }
    fn push(&mut self, n: Uint, algo: Algo, tag: &str, primes: Option<Vec<Uint>>) {
        if n.bits() > bits_limit(algo) {
            return;
        }
        self.cases.push(Case::new(n, algo, tag));
        self.expect.push(Expect { primes });
    }
    fn push_prefs(
        &mut self,
        n: Uint,
        algo: Algo,
        tag: &str,
        primes: Option<Vec<Uint>>,
        prefs: PrefSpec,
    ) {
        if n.bits() > bits_limit(algo) {
            return;
        }
        let mut c = Case::new(n, algo, tag);
        c.prefs = prefs;
        self.cases.push(c);
        self.expect.push(Expect { primes });
    }
}

/// (a) every n in [0, max] for the given selectors.
fn fam_small(d: &mut Domain, max: u64, algos: &[Algo]) {
    for n in 0..=max {
        for &a in algos {
            d.push(u(n), a, "small", None);
        }
    }
}

/// all p*q, 211 <= p <= q < hi
fn fam_semiprimes(d: &mut Domain, hi: u64, algos: &[Algo]) {
    let ps = primes_between(211, hi);
    for i in 0..ps.len() {
        for j in i..ps.len() {
            let n = u(ps[i] * ps[j]);
            for &a in algos {
                d.push(n, a, "pq", Some(vec![u(ps[i]), u(ps[j])]));
            }
        }
    }
}

fn fam_triples(d: &mut Domain, lo: u64, hi: u64, algos: &[Algo]) {
    let ps = primes_between(lo, hi);
    for i in 0..ps.len() {
        for j in i..ps.len() {
            for k in j..ps.len() {
                let n = u(ps[i] * ps[j] * ps[k]);
                for &a in algos {
                    d.push(n, a, "pqr", Some(vec![u(ps[i]), u(ps[j]), u(ps[k])]));
                }
            }
        }
    }
}

/// all p^k <= 2^64 and p^2 q
fn fam_powers(d: &mut Domain, hi: u64, algos: &[Algo]) {
    let ps = primes_between(211, hi);
    for &p in &ps {
        let mut x = p as u128 * p as u128;
        let mut k = 2;
        while x < (1u128 << 64) {
            for &a in algos {
                d.push(u(x as u64), a, "ppow", Some(vec![u(p); k]));
            }
            x *= p as u128;
            k += 1;
        }
    }
    let qs = primes_between(211, 600.min(hi));
    for &p in &qs {
        for &q in &qs {
            if p == q {
                continue;
            }
            let mut pr = vec![u(p), u(p), u(q)];
            pr.sort();
            for &a in algos {
                d.push(u(p * p * q), a, "p2q", Some(pr.clone()));
            }
        }
    }
}

/// small-prime powers with exponents at word boundaries times a small cofactor:
/// the trial-division loop and anything that special-cases powers of two.
fn fam_smooth_prefix(d: &mut Domain, algos: &[Algo]) {
    let cof: [&[u64]; 5] = [&[], &[3], &[211], &[211, 223], &[65537, 65539]];
    for base in [2u64, 3, 5, 197, 199] {
        for k in [1u32, 2, 31, 32, 33, 63, 64, 65, 66, 127, 128, 129, 191, 192, 193, 255, 256, 257] {
            let bits = (k as f64 * (base as f64).log2()) as u32;
            if bits > 440 {
                continue;
            }
            let mut pw = Uint::ONE;
            for _ in 0..k {
                pw = pw * u(base);
            }
            for c in cof {
                let mut primes: Vec<Uint> = vec![u(base); k as usize];
                let mut n = pw;
                for &q in c.iter() {
                    n = n * u(q);
                    primes.push(u(q));
                }
                primes.sort();
                for &a in algos {
                    d.push(n, a, "smooth-prefix", Some(primes.clone()));
                }
            }
        }
    }
}

/// semiprimes p*q just below 2^64 and 2^128 (top bit of the word set) and just above
/// 2^63, 2^127: the 64-/128-bit specialised arithmetic at its limits.
fn fam_word_boundary(d: &mut Domain, algos: &[Algo]) {
    for b in [64u32, 128] {
        for p in [211u64, 65537, 1000003, 16769023, 2147483659] {
            let top = (W::ONE << b) - W::ONE;
            let q = rm::prev_prime_w(&(top / W::from_digit(p)));
            let n: Uint = rm::w_to(&(q * W::from_digit(p)));
            let mut pr = vec![u(p), rm::w_to(&q)];
            pr.sort();
            let half = W::ONE << (b - 1);
            let q2 = rm::next_prime_w(&(half / W::from_digit(p)));
            let n2: Uint = rm::w_to(&(q2 * W::from_digit(p)));
            let mut pr2 = vec![u(p), rm::w_to(&q2)];
            pr2.sort();
            for &a in algos {
                d.push(n, a, "word-boundary", Some(pr.clone()));
                d.push(n2, a, "word-boundary", Some(pr2.clone()));
            }
        }
    }
}

/// Inputs with an all-zero interior or low 64-bit limb: a*2^(64k) + b. Kept when the part left
/// after dividing out the factors below 2^16 (reference trial division) is 1 or prime, so the
/// prime multiset is known and factor() only has trial division and a primality test to do.
/// The trial division at the top of factor() uses the multiword long division.
/// Every multiplier the selection can return: all products of a window of `np` consecutive
/// primes after 2^57 with a window of `nq` consecutive primes after 2^58 (116-bit semiprimes) are
/// given to the real `select_multiplier`; for every distinct multiplier value the first `per_k`
/// inputs selecting it are factored. The factor base then contains the primes of the multiplier,
/// with root 0, next to possible divisors of n.
fn fam_multipliers(d: &mut Domain, algos: &[Algo], np: usize, nq: usize, per_k: usize) {
    let mut ps = vec![];
    let mut x = rm::next_prime_u64(1 << 57);
    while ps.len() < np {
        ps.push(x);
        x = rm::next_prime_u64(x + 1);
    }
    let mut qs = vec![];
    let mut x = rm::next_prime_u64(1 << 58);
    while qs.len() < nq {
        qs.push(x);
        x = rm::next_prime_u64(x + 1);
    }
    let mut seen: BTreeMap<u32, usize> = BTreeMap::new();
    for &p in &ps {
        for &q in &qs {
            let n = u(p) * u(q);
            let Ok((k, _)) = guarded(|| yamaquasi::fbase::select_multiplier(n)) else { continue };
            let c = seen.entry(k).or_insert(0);
            if *c >= per_k {
                continue;
            }
            *c += 1;
            for &a in algos {
                d.push(n, a, "multiplier", Some(vec![u(p), u(q)]));
            }
        }
    }
}

fn fam_zero_limb(d: &mut Domain, algos: &[Algo], per_shape: usize) {
    let small = rm::primes_below(1 << 16);
    for k in [2u32, 3, 4, 7] {
        for a in [1u64, 3, 5 << 10, (1 << 40) + 15] {
            let base = W::from_digit(a) << (64 * k);
            let base_mod: Vec<u64> = small.iter().map(|&q| (base % W::from_digit(q)).digits()[0]).collect();
            let (mut with_small, mut plain) = (0usize, 0usize);
            for b in 1..6000u64 {
                if with_small >= per_shape && plain >= per_shape / 4 {
                    break;
                }
                let n = base + W::from_digit(b);
                let mut rest = n;
                let mut primes: Vec<Uint> = vec![];
                for (i, &q) in small.iter().enumerate() {
                    if (base_mod[i] + b % q) % q != 0 {
                        continue;
                    }
                    let qw = W::from_digit(q);
                    while (rest % qw).is_zero() {
                        rest = rest / qw;
                        primes.push(u(q));
                    }
                }
                if primes.len() > 12 {
                    continue;
                }
                if primes.is_empty() && plain >= per_shape / 4 {
                    continue;
                }
                if !primes.is_empty() && with_small >= per_shape {
                    continue;
                }
                if rest > W::ONE {
                    if !rm::is_prime_w(&rest) {
                        continue;
                    }
                    primes.push(rm::w_to(&rest));
                }
                if primes.len() == 1 {
                    plain += 1;
                } else {
                    with_small += 1;
                }
                primes.sort();
                for &al in algos {
                    d.push(rm::w_to(&n), al, "zero-limb", Some(primes.clone()));
                }
            }
        }
    }
}

/// n = p^2 * q * r with p-1 and q-1 smooth (so P-1 finds p and q in different gcd windows of
/// one run, p twice) and r resistant: the batch-gcd cofactor bookkeeping with a repeated prime.
fn fam_pm1_repeated(d: &mut Domain, algos: &[Algo], count: usize) {
    // smooth primes: 1 + 2 * product of primes below 1000 picked deterministically
    let sp = rm::primes_below(1000);
    let smooth_prime = |bits: u32, salt: u64, big: u64| -> W {
        let mut z = salt;
        loop {
            let mut m = W::TWO * W::from_digit(big);
            while m.bits() < bits {
                z = mix64(z);
                m = m * W::from_digit(sp[(z % sp.len() as u64) as usize]);
            }
            let p = m + W::ONE;
            if p.bits() <= bits + 9 && rm::is_prime_w(&p) {
                return p;
            }
        }
    };
    for i in 0..count as u64 {
        // p-1 is smooth over small primes (an early gcd window); q-1 has one larger prime
        // factor, so q enters in a later window of stage 1 or in stage 2
        let p = smooth_prime(28 + (i % 3) as u32, 1000 + i, 1);
        let q = smooth_prime(33 + (i % 2) as u32, 2000 + i, [65537u64, 10007, 40009, 100003, 250007, 1][(i % 6) as usize]);
        if p == q {
            continue;
        }
        // r: a prime whose r-1 has a large prime factor (2*s+1 with s prime)
        let mut s = rm::next_prime_w(&(W::ONE << (38 + (i % 4) as u32)));
        let r = loop {
            let cand = s * W::TWO + W::ONE;
            if rm::is_prime_w(&cand) {
                break cand;
            }
            s = rm::next_prime_w(&(s + W::ONE));
        };
        let n = p * p * q * r;
        let mut primes = vec![rm::w_to(&p), rm::w_to(&p), rm::w_to(&q), rm::w_to(&r)];
        primes.sort();
        for &al in algos {
            d.push(rm::w_to(&n), al, "pm1-repeated", Some(primes.clone()));
        }
        // and the squarefree control with a cube
        let n3 = p * p * p * q;
        let mut primes3 = vec![rm::w_to(&p), rm::w_to(&p), rm::w_to(&p), rm::w_to(&q)];
        primes3.sort();
        for &al in algos {
            d.push(rm::w_to(&n3), al, "pm1-repeated", Some(primes3.clone()));
        }
    }
}

/// Every product p*q with p, q from two windows of consecutive primes: balanced semiprimes of
/// a given size (the sizes where automatic mode relies on its last-resort ECM pass).
fn fam_balanced(d: &mut Domain, algos: &[Algo], bits: u32, npr: usize) {
    let lo = (W::ONE << (bits / 2 - 1)) + (W::ONE << (bits / 2 - 2)); // 0.75 * 2^(bits/2)
    let hi = W::ONE << (bits - bits / 2);
    let mut ps = vec![];
    let mut p = lo;
    for _ in 0..npr {
        p = rm::next_prime_w(&(p + W::ONE));
        ps.push(p);
    }
    let mut qs = vec![];
    let mut q = hi - (hi >> 3u32);
    for _ in 0..npr {
        q = rm::next_prime_w(&(q + W::ONE));
        qs.push(q);
    }
    for p in &ps {
        for q in &qs {
            let n = *p * *q;
            let mut pr = vec![rm::w_to(p), rm::w_to(q)];
            pr.sort();
            for &al in algos {
                d.push(rm::w_to(&n), al, "balanced-window", Some(pr.clone()));
            }
        }
    }
}

fn product(v: &[Uint]) -> Option<Uint> {
    let mut bits = 0;
    for x in v {
        bits += x.bits();
    }
    if bits > 1000 {
        return None;
    }
    Some(v.iter().fold(Uint::ONE, |a, b| a * *b))
}

/// multisets of <= k pool primes with product <= maxbits, via f(algo, n, primes)
fn fam_corpus(
    d: &mut Domain,
    pool: &[Uint],
    k: usize,
    maxbits: &dyn Fn(Algo) -> u32,
    algos: &[Algo],
    prefix: &[u64],
) {
    fn rec(
        pool: &[Uint],
        start: usize,
        k: usize,
        cur: &mut Vec<Uint>,
        out: &mut Vec<Vec<Uint>>,
        maxb: u32,
    ) {
        if !cur.is_empty() {
            out.push(cur.clone());
        }
        if cur.len() == k {
            return;
        }
        for i in start..pool.len() {
            cur.push(pool[i]);
            let b: u32 = cur.iter().map(|x| x.bits()).sum();
            if b <= maxb + cur.len() as u32 {
                rec(pool, i, k, cur, out, maxb);
            }
            cur.pop();
        }
    }
    let maxall = algos.iter().map(|&a| maxbits(a)).max().unwrap_or(0);
    let mut sets = vec![];
    rec(pool, 0, k, &mut vec![], &mut sets, maxall);
    for s in sets {
        let Some(n0) = product(&s) else { continue };
        for &pre in prefix {
            let n = n0 * u(pre);
            let mut primes = s.clone();
            for (p, e) in rm::factor_u64(pre) {
                for _ in 0..e {
                    primes.push(u(p));
                }
            }
            primes.sort();
            for &a in algos {
                if n.bits() <= maxbits(a) {
                    d.push(n, a, "corpus", Some(primes.clone()));
                }
            }
        }
    }
}

const ALL: [Algo; 10] = [
    Algo::Auto,
    Algo::Rho,
    Algo::Squfof,
    Algo::Qs64,
    Algo::Pm1,
    Algo::Ecm,
    Algo::Ecm128,
    Algo::Qs,
    Algo::Mpqs,
    Algo::Siqs,
];

fn edge_set() -> Vec<u64> {
    let mut v = vec![];
    for k in [8u32, 16, 24, 31, 32, 40, 48, 52, 56, 63, 64] {
        for delta in 0..=64u64 {
            if k < 64 {
                v.push((1u64 << k) + delta);
                v.push((1u64 << k) - delta);
            } else if delta > 0 {
                v.push(0u64.wrapping_sub(delta));
            }
        }
    }
    v.sort();
    v.dedup();
    v
}

pub fn check_product(c: &Case, fs: &[Uint]) -> Result<(), String> {
    if c.n.is_zero() {
        return if fs == [Uint::ZERO] {
            Ok(())
        } else {
            Err(format!("n=0 gave {:?}", fs))
        };
    }
    if c.n.is_one() {
        return if fs.is_empty() {
            Ok(())
        } else {
            Err(format!("n=1 gave {:?}", fs))
        };
    }
    let mut prod = W::ONE;
    let nw = rm::w_from(&c.n);
    for f in fs {
        if f.is_zero() || f.is_one() {
            return Err(format!("trivial element {}", f));
        }
        let fw = rm::w_from(f);
        if !(nw % fw).is_zero() {
            return Err(format!("{} does not divide n", f));
        }
        if prod.bits() + fw.bits() > 2400 {
            return Err("product overflow".into());
        }
        prod = prod * fw;
    }
    if prod != nw {
        return Err(format!("product {} != n", prod));
    }
    for w in fs.windows(2) {
        if w[0] > w[1] {
            return Err("not sorted".into());
        }
    }
    Ok(())
}

fn fmt_list(v: &[Uint]) -> String {
    v.iter().map(|x| x.to_string()).collect::<Vec<_>>().join("*")
}

fn timing(cases: &[Case], results: &[CaseResult]) {
    if std::env::var("VERIF_TIMING").is_err() {
        return;
    }
    let mut t: BTreeMap<(String, &'static str), (u64, u64, u64)> = BTreeMap::new();
    for (c, r) in cases.iter().zip(results) {
        let e = t.entry((c.tag.clone(), algo_name(c.algo))).or_default();
        e.0 += 1;
        e.1 += r.micros;
        e.2 = e.2.max(r.micros);
    }
    for ((tag, a), (n, sum, max)) in &t {
        eprintln!("TIMING {:16} {:8} n={:8} sum={:10.3}s max={:8.3}s", tag, a, n, *sum as f64 / 1e6, *max as f64 / 1e6);
    }
    let mut idx: Vec<usize> = (0..cases.len()).collect();
    idx.sort_by_key(|&i| std::cmp::Reverse(results[i].micros));
    for &i in idx.iter().take(25) {
        eprintln!("SLOW {:.3}s {} {:?}", results[i].micros as f64 / 1e6, cases[i].encode(), match &results[i].outcome { Outcome::Ok(_) => "ok".to_string(), o => format!("{:?}", o) });
    }
}

fn shards() -> usize {
    std::thread::available_parallelism().map(|x| x.get()).unwrap_or(8)
}

// ------------------------------------------------------------------ C01

pub fn run_c01(ctx: &Ctx) -> Report {
    let mut rep = Report::new("exploration");
    let mut d = Domain::new();
    let pool = prime_pool();
    fam_small(&mut d, ctx.pick(1 << 16, 1 << 19), &ALL);
    fam_semiprimes(&mut d, ctx.pick(1 << 10, 1 << 12), &ALL);
    fam_triples(&mut d, 211, ctx.pick(300, 400), &ALL);
    fam_powers(&mut d, ctx.pick(1 << 10, 1 << 11), &ALL);
    fam_smooth_prefix(&mut d, &ALL);
    fam_word_boundary(&mut d, &[Algo::Auto, Algo::Rho, Algo::Squfof, Algo::Qs64, Algo::Ecm, Algo::Ecm128, Algo::Siqs]);
    fam_zero_limb(&mut d, if ctx.quick() { &[Algo::Auto][..] } else { &[Algo::Auto, Algo::Pm1, Algo::Ecm][..] }, ctx.pick(8, 40));
    fam_pm1_repeated(&mut d, if ctx.quick() { &[Algo::Pm1][..] } else { &[Algo::Pm1, Algo::Auto][..] }, ctx.pick(6, 24));
    let maxbits = |a: Algo| -> u32 {
        match a {
            Algo::Auto | Algo::Siqs => 110,
            Algo::Mpqs => 90,
            Algo::Qs => 72,
            Algo::Pm1 => 120,
            Algo::Ecm => 100,
            Algo::Ecm128 => 100,
            _ => 64,
        }
    };
    fam_corpus(
        &mut d,
        &pool,
        ctx.pick(3, 4),
        &maxbits,
        &ALL,
        &[1, 2 * 2 * 2 * 2 * 2 * 3, 199 * 199],
    );
    // (c) preference product on the sieve selectors, small corpus that completes fast
    let sub: Vec<Vec<Uint>> = {
        let ps = prime_pool();
        let pick = |i: usize, j: usize| vec![ps[i], ps[j]];
        let mut v = vec![];
        // ~40-, 56-, 64-, 72-, 90-bit semiprimes
        let idx = |bits: u32| ps.iter().position(|p| p.bits() > bits).unwrap();
        v.push(pick(idx(20), idx(20) + 1));
        v.push(pick(idx(23), idx(31)));
        v.push(pick(idx(31), idx(31) + 1));
        v.push(pick(idx(31), idx(39)));
        v.push(pick(idx(39), idx(47)));
        v.push(vec![u(1000003), u(1000033), u(1000037)]);
        v.push(vec![u(65537), u(65537), u(1000003)]);
        v
    };
    let threads = [None, Some(2usize), Some(4)];
    let lfs = [None, Some(1u64), Some(20)];
    let dbl = [None, Some(false), Some(true)];
    let isz = [None, Some(32768u32), Some(65536)];
    for s in &sub {
        let n = product(s).unwrap();
        let mut primes = s.clone();
        primes.sort();
        for &a in &[Algo::Qs, Algo::Mpqs, Algo::Siqs] {
            if a == Algo::Qs && n.bits() > 72 {
                continue;
            }
            for &t in &threads {
                for fbk in 0..3 {
                    for &lf in &lfs {
                        for &db in &dbl {
                            for &iz in &isz {
                                let def = yamaquasi::params::factor_base_size(&n);
                                // classical QS with half the default base does not
                                // terminate in reasonable time on some inputs (a
                                // preference precondition, not a property): Qs gets the
                                // explicit default instead of the halved base.
                                let fb = match fbk {
                                    0 => None,
                                    1 if a == Algo::Qs => Some(def),
                                    1 => Some((def / 2).max(16)),
                                    _ => Some(def * 2),
                                };
                                let prefs = PrefSpec {
                                    threads: t,
                                    fb_size: fb,
                                    large_factor: lf,
                                    use_double: db,
                                    interval_size: iz,
                                    abort_after: None,
                                };
                                if prefs.is_default() {
                                    continue;
                                }
                                d.push_prefs(n, a, "prefs", Some(primes.clone()), prefs);
                            }
                        }
                    }
                }
            }
        }
    }
    // aborted answers must still multiply to n: corpus with poll budgets
    for s in &sub {
        let n = product(s).unwrap();
        for &a in &[Algo::Auto, Algo::Ecm, Algo::Qs, Algo::Mpqs, Algo::Siqs] {
            for k in [0u64, 1, 2, 3, 5, 8, 13, 21] {
                if a == Algo::Ecm && n.bits() > 64 && ctx.quick() {
                    continue;
                }
                let prefs = PrefSpec {
                    abort_after: Some(k),
                    ..Default::default()
                };
                d.push_prefs(n, a, "abort", None, prefs);
            }
        }
    }
    let cfg = SweepCfg {
        shards: shards(),
        case_timeout: Duration::from_secs(ctx.pick(60, 300)),
    };
    let results = run_sweep(ctx, &d.cases, &cfg);
    timing(&d.cases, &results);
    let mut by_outcome: BTreeMap<String, u64> = BTreeMap::new();
    let mut nontrivial = std::collections::BTreeSet::new();
    for (i, r) in results.iter().enumerate() {
        let c = &d.cases[i];
        rep.evaluations += 1;
        match &r.outcome {
            Outcome::Ok(fs) => {
                *by_outcome.entry("ok".into()).or_default() += 1;
                if fs.len() >= 2 && fs.iter().filter(|f| f.bits() > 8).count() >= 2 {
                    // reached an algorithm beyond trial division
                    nontrivial.insert((c.n, algo_name(c.algo), c.prefs.encode()));
                }
                if let Err(e) = check_product(c, fs) {
                    rep.violation(
                        format!("algo={};what=bad-list", algo_name(c.algo)),
                        format!("n={} -> [{}]: {}", c.n, fmt_list(fs), e),
                        c.json(),
                    );
                }
                if rep.samples.len() < 8 && c.tag != "small" && i % 9973 == 0 {
                    rep.sample(J::obj(vec![("case", c.json()), ("result", J::s(fmt_list(fs)))]));
                }
            }
            Outcome::Err => *by_outcome.entry("err".into()).or_default() += 1,
            Outcome::Panic { .. } => *by_outcome.entry("panic(C03)".into()).or_default() += 1,
            Outcome::Hang => *by_outcome.entry("hang(C03)".into()).or_default() += 1,
            Outcome::Crash(s) => {
                if s.starts_with("machinery") {
                    rep.machinery(format!("{} on {}", s, c.encode()));
                }
                *by_outcome.entry("crash(C03)".into()).or_default() += 1
            }
        }
    }
    if rep.samples.is_empty() {
        for (i, r) in results.iter().enumerate().rev().take(3) {
            if let Outcome::Ok(fs) = &r.outcome {
                rep.sample(J::obj(vec![
                    ("case", d.cases[i].json()),
                    ("result", J::s(fmt_list(fs))),
                ]));
            }
        }
    }
    rep.nontrivial = nontrivial.len() as u64;
    rep.rule = "cases = every n in [0,2^16] (quick) / [0,2^19] (thorough) x 10 selectors; all p*q with primes 211<=p<=q<2^10/2^12; all p*q*r over primes in [211,300/400]; all p^k<=2^64 and p^2*q; small-prime powers b^k (b in {2,3,5,197,199}, k at word boundaries 1..257) x 5 cofactors; all multisets of <=3/4 primes of a 33-prime branch-point pool (x trial-division prefixes 1, 96, 199^2) within each selector's budgeted size; full product of 3x3x3x3x3 preference settings on Qs/Mpqs/Siqs over a 7-element corpus; abort budgets {0,1,2,3,5,8,13,21}. Oracle (harness bnum arithmetic): product == n, every element divides n, none is 0/1, sorted, n=0 -> [0], n=1 -> []. Non-trivial = distinct (n,selector,prefs) whose answer has >= 2 factors above 8 bits (an algorithm beyond trial division produced it). Panics/hangs/Err are C03's business and only counted here.".into();
    rep.set(
        "outcomes",
        J::O(by_outcome.iter().map(|(k, v)| (k.clone(), J::from(*v))).collect()),
    );
    rep.assumptions.push("bnum BUint multiplication/division is correct (reference arithmetic)".into());
    rep.assumptions.push("selectors Rho/Squfof/Qs64 are only driven below 65 bits and Ecm128 below 129 bits (their size preconditions)".into());
    rep
}

// ------------------------------------------------------------------ C02

fn c02_algos() -> Vec<Algo> {
    vec![Algo::Auto, Algo::Ecm, Algo::Ecm128, Algo::Qs, Algo::Mpqs, Algo::Siqs]
}

pub fn run_c02(ctx: &Ctx) -> Report {
    let mut rep = Report::new("exploration");
    let mut d = Domain::new();
    let pool = prime_pool();
    // (a) every small n, automatic mode (expected factorization from the reference model)
    fam_small(&mut d, ctx.pick(1 << 17, 1 << 21), &[Algo::Auto]);
    fam_semiprimes(&mut d, ctx.pick(1 << 11, 1 << 13), &[Algo::Auto]);
    fam_semiprimes(
        &mut d,
        ctx.pick(600, 1 << 11),
        &[Algo::Ecm, Algo::Ecm128],
    );
    fam_triples(&mut d, 211, ctx.pick(330, 420), &[Algo::Auto, Algo::Ecm, Algo::Ecm128]);
    fam_powers(&mut d, ctx.pick(1 << 10, 1 << 12), &[Algo::Auto]);
    fam_smooth_prefix(&mut d, &[Algo::Auto, Algo::Ecm, Algo::Siqs]);
    fam_word_boundary(&mut d, &[Algo::Auto, Algo::Ecm128]);
    fam_zero_limb(&mut d, &[Algo::Auto], ctx.pick(8, 40));
    fam_pm1_repeated(&mut d, if ctx.quick() { &[Algo::Pm1][..] } else { &[Algo::Auto, Algo::Pm1][..] }, ctx.pick(4, 24));
    // balanced semiprimes where automatic mode ends in its last-resort ECM pass
    fam_balanced(&mut d, &[Algo::Auto], 80, ctx.pick(40, 110));
    fam_balanced(&mut d, &[Algo::Auto], 76, ctx.pick(24, 80));
    fam_balanced(&mut d, &[Algo::Auto], 66, ctx.pick(16, 60));
    // adversarial composites for the primality tests factor() relies on: the minimal strong
    // pseudoprimes psi_k, Chernick Carmichael numbers (also above 64 bits), and their products
    // with small primes / squares (the perfect-power and trial-division paths)
    {
        let psi: [u64; 8] = [
            2047, 1373653, 25326001, 3215031751, 2152302898747, 3474749660383, 341550071728321,
            3825123056546413051,
        ];
        let mut adv: Vec<Uint> = psi.iter().map(|&x| u(x)).collect();
        adv.push(std::str::FromStr::from_str("318665857834031151167461").unwrap());
        adv.push(std::str::FromStr::from_str("3317044064679887385961981").unwrap());
        for (e, cnt) in [(10u32, 6usize), (18, 6), (20, 6), (24, 4), (30, 4), (36, 3), (40, 3)] {
            let mut k = 1u64 << e;
            let mut found = 0;
            while found < cnt {
                let (a, b, c) = (6 * k + 1, 12 * k + 1, 18 * k + 1);
                if rm::is_prime_u64(a) && rm::is_prime_u64(b) && rm::is_prime_u64(c) {
                    adv.push(u(a) * u(b) * u(c));
                    found += 1;
                }
                k += 1;
            }
        }
        for n in adv {
            for algo in [Algo::Auto, Algo::Ecm, Algo::Siqs] {
                d.push(n, algo, "pseudoprime-corpus", None);
                d.push(n * u(2 * 7 * 197), algo, "pseudoprime-corpus", None);
            }
            if n.bits() <= 100 {
                d.push(n * n, Algo::Auto, "pseudoprime-corpus", None);
            }
        }
    }
    // sieve selectors "inside their working range": the README states parameters were
    // tested from 40 bits on; the repository's own tests go down to 30 bits for MPQS.
    // Here: all p*q with p,q primes in windows giving 40..44-bit n.
    {
        let ps = primes_between(1 << 20, (1 << 20) + ctx.pick(400, 1400));
        for i in 0..ps.len() {
            for j in i..ps.len() {
                let n = u(ps[i] * ps[j]);
                for a in [Algo::Qs, Algo::Mpqs, Algo::Siqs] {
                    d.push(n, a, "pq40", Some(vec![u(ps[i]), u(ps[j])]));
                }
            }
        }
    }
    let maxbits_q = |a: Algo| -> u32 {
        match a {
            Algo::Auto => 128,
            Algo::Siqs => 128,
            Algo::Mpqs => 100,
            Algo::Qs => 72,
            Algo::Ecm => 90,
            Algo::Ecm128 => 90,
            _ => 0,
        }
    };
    let maxbits_t = |a: Algo| -> u32 {
        match a {
            Algo::Auto => 200,
            Algo::Siqs => 160,
            Algo::Mpqs => 120,
            Algo::Qs => 80,
            Algo::Ecm => 110,
            Algo::Ecm128 => 110,
            _ => 0,
        }
    };
    let mb: &dyn Fn(Algo) -> u32 = if ctx.quick() { &maxbits_q } else { &maxbits_t };
    fam_corpus(&mut d, &pool, ctx.pick(3, 5), mb, &[Algo::Auto], &[1, 96, 199 * 199]);
    // other selectors: corpus restricted to cofactors >= 40 bits for sieves
    {
        let mut d2 = Domain::new();
        fam_corpus(
            &mut d2,
            &pool,
            ctx.pick(3, 4),
            mb,
            &[Algo::Ecm, Algo::Ecm128, Algo::Qs, Algo::Mpqs, Algo::Siqs],
            &[1],
        );
        for (c, e) in d2.cases.into_iter().zip(d2.expect.into_iter()) {
            let sieve = matches!(c.algo, Algo::Qs | Algo::Mpqs | Algo::Siqs);
            if sieve && c.n.bits() < 40 {
                continue;
            }
            d.cases.push(c);
            d.expect.push(e);
        }
    }
    // thread counts on a sub-corpus (Auto and Siqs)
    {
        let sub: Vec<Vec<Uint>> = {
            let idx = |bits: u32| pool.iter().position(|p| p.bits() > bits).unwrap();
            vec![
                vec![pool[idx(31)], pool[idx(31) + 1]],
                vec![pool[idx(39)], pool[idx(47)]],
                vec![pool[idx(47)], pool[idx(51)]],
                vec![pool[idx(39)], pool[idx(39)], pool[idx(31)]],
                vec![u(1000003), u(1000033), u(1000037), u(1000039)],
            ]
        };
        for s in &sub {
            let n = product(s).unwrap();
            let mut primes = s.clone();
            primes.sort();
            for t in [2usize, 3, 4, 8, 16] {
                for a in [Algo::Auto, Algo::Siqs, Algo::Mpqs, Algo::Ecm] {
                    let prefs = PrefSpec {
                        threads: Some(t),
                        ..Default::default()
                    };
                    d.push_prefs(n, a, "threads", Some(primes.clone()), prefs);
                }
            }
        }
    }
    let cfg = SweepCfg {
        shards: shards(),
        case_timeout: Duration::from_secs(ctx.pick(60, 600)),
    };
    let results = run_sweep(ctx, &d.cases, &cfg);
    timing(&d.cases, &results);
    let mut by_outcome: BTreeMap<String, u64> = BTreeMap::new();
    let mut nontrivial = std::collections::BTreeSet::new();
    for (i, r) in results.iter().enumerate() {
        let c = &d.cases[i];
        rep.evaluations += 1;
        match &r.outcome {
            Outcome::Ok(fs) => {
                *by_outcome.entry("ok".into()).or_default() += 1;
                if c.n.bits() <= 1 {
                    continue;
                }
                let mut bad = None;
                match &d.expect[i].primes {
                    Some(p) => {
                        if fs != p {
                            bad = Some(format!("expected [{}]", fmt_list(p)));
                        }
                    }
                    None => {
                        for f in fs {
                            if !rm::is_prime_uint(f) {
                                bad = Some(format!("{} is composite", f));
                                break;
                            }
                        }
                        if bad.is_none() {
                            if let Err(e) = check_product(c, fs) {
                                bad = Some(e);
                            }
                        }
                    }
                }
                if fs.iter().filter(|f| f.bits() > 8).count() >= 2 {
                    nontrivial.insert((c.n, algo_name(c.algo), c.prefs.encode()));
                }
                if let Some(b) = bad {
                    rep.violation(
                        format!("algo={};what=incomplete;n={}", algo_name(c.algo), c.n),
                        format!("n={} -> [{}]: {}", c.n, fmt_list(fs), b),
                        c.json(),
                    );
                }
                if c.tag == "pseudoprime-corpus" && i % 11 == 0 || c.tag != "small" && i % 7919 == 0 {
                    rep.sample(J::obj(vec![("case", c.json()), ("result", J::s(fmt_list(fs)))]));
                }
            }
            Outcome::Err => {
                *by_outcome.entry("err".into()).or_default() += 1;
                rep.violation(
                    format!("algo={};what=failure;n={}", algo_name(c.algo), c.n),
                    format!("n={} -> Err(FactoringFailure) inside the working range", c.n),
                    c.json(),
                );
            }
            Outcome::Panic { .. } => *by_outcome.entry("panic(C03)".into()).or_default() += 1,
            Outcome::Hang => *by_outcome.entry("hang(C03)".into()).or_default() += 1,
            Outcome::Crash(s) => {
                if s.starts_with("machinery") {
                    rep.machinery(format!("{} on {}", s, c.encode()));
                }
                *by_outcome.entry("crash(C03)".into()).or_default() += 1
            }
        }
    }
    if rep.samples.is_empty() {
        rep.sample(d.cases[d.cases.len() - 1].json());
    }
    rep.nontrivial = nontrivial.len() as u64;
    rep.rule = "Auto: every n in [0,2^17]/[0,2^21], all p*q with 211<=p<=q<2^11/2^13, all p*q*r over primes [211,330/420], all p^k<=2^64, p^2*q, the strong pseudoprimes psi_1..psi_13 and 32 Chernick Carmichael numbers of 37..135 bits (plain, x 2*7*197, squared; also through Ecm and Siqs), all multisets of <=3/5 pool primes (x prefixes 1,96,199^2) up to 128/200 bits; Ecm/Ecm128: p*q below 600/2^11, triples, corpus to 90/110 bits; Qs/Mpqs/Siqs: all p*q over the primes in [2^20, 2^20+400/1400] (40-bit n) and corpus cofactors >= 40 bits to 72/100/128 (quick) or 80/120/160 (thorough) bits; thread counts {2,3,4,8,16} on a 5-element sub-corpus x {Auto,Siqs,Mpqs,Ecm}. Oracle: result equals the known sorted prime multiset (corpus built from reference-certified primes) or, for the plain ranges, every element passes the harness's own primality test (trial division + 12/24-base Miller-Rabin + strong Lucas, never yamaquasi's) and the product is n. Err on these inputs is a violation. Non-trivial = distinct (n,selector,prefs) with >= 2 factors above 8 bits.".into();
    rep.set(
        "outcomes",
        J::O(by_outcome.iter().map(|(k, v)| (k.clone(), J::from(*v))).collect()),
    );
    rep.assumptions.push("reference primality test (MR 12 bases exact below 3.18e23; MR24+strong Lucas above) is correct".into());
    rep.assumptions.push("working range of Qs/Mpqs/Siqs taken as n >= 40 bits after trial division (README: parameters tested from 40 bits); Ecm/Ecm128 any n".into());
    rep
}

// ------------------------------------------------------------------ C03

pub fn run_c03(ctx: &Ctx) -> Report {
    let mut rep = Report::new("exploration");
    let mut d = Domain::new();
    let pool = prime_pool();
    fam_small(&mut d, ctx.pick(1 << 15, 1 << 18), &ALL);
    fam_semiprimes(&mut d, ctx.pick(600, 1 << 11), &ALL);
    fam_triples(&mut d, 211, ctx.pick(280, 400), &ALL);
    fam_powers(&mut d, ctx.pick(600, 1 << 11), &ALL);
    fam_smooth_prefix(&mut d, &ALL);
    fam_word_boundary(&mut d, &[Algo::Auto, Algo::Rho, Algo::Squfof, Algo::Qs64, Algo::Ecm, Algo::Ecm128, Algo::Siqs, Algo::Pm1]);
    // (sieve selectors do not test primality first: they are not driven on these large inputs)
    fam_zero_limb(&mut d, if ctx.quick() { &[Algo::Auto][..] } else { &[Algo::Auto, Algo::Pm1, Algo::Ecm, Algo::Rho][..] }, ctx.pick(8, 30));
    fam_pm1_repeated(&mut d, if ctx.quick() { &[Algo::Pm1][..] } else { &[Algo::Pm1, Algo::Auto, Algo::Ecm][..] }, ctx.pick(4, 24));
    // (d) edge set for all selectors (all <= 64 bits)
    for n in edge_set() {
        for &a in &ALL {
            d.push(u(n), a, "edge", None);
        }
    }
    let maxbits = |a: Algo| -> u32 {
        match a {
            Algo::Auto | Algo::Siqs => 100,
            Algo::Mpqs => 90,
            Algo::Qs => 72,
            Algo::Pm1 => 120,
            Algo::Ecm => 90,
            Algo::Ecm128 => 90,
            _ => 64,
        }
    };
    fam_corpus(&mut d, &pool, ctx.pick(2, 3), &maxbits, &ALL, &[1, 96]);
    // (f) large sizes that still terminate quickly: primes / prime powers / smooth*prime
    for k in [64u32, 128, 256, 400, 448, 500] {
        let p = rm::prev_prime_w(&(W::ONE << k));
        let pu: Uint = rm::w_to(&p);
        for &a in &ALL {
            d.push(pu, a, "bigprime", Some(vec![pu]));
            // smooth * prime: trial division then primality
            if k + 20 <= 500 {
                d.push(pu * u(2 * 3 * 5 * 7 * 11 * 13 * 199), a, "smooth*prime", None);
            }
        }
        // prime squares
        let q = rm::prev_prime_w(&(W::ONE << (k / 2)));
        let qu: Uint = rm::w_to(&q);
        for &a in &ALL {
            d.push(qu * qu, a, "bigsquare", Some(vec![qu, qu]));
        }
        // hard composite under poll-budget abort
        let q2 = rm::next_prime_w(&(W::ONE << (k / 2 - 1)));
        let q2u: Uint = rm::w_to(&q2);
        for &a in &[Algo::Auto, Algo::Ecm, Algo::Qs, Algo::Mpqs, Algo::Siqs] {
            let prefs = PrefSpec {
                abort_after: Some(3),
                ..Default::default()
            };
            // beyond 256 bits even the set-up of a sieve (before the first poll) takes
            // minutes: "terminates" is then not observable within a per-case cap
            if k <= 256 {
                d.push_prefs(qu * q2u, a, "hard+abort", None, prefs);
            }
        }
    }
    // (f2) a prime of the factor base divides n (single root in the sieve tables): primes on both
    // sides of the size classes of the sieve (2^13, 2^14, 2^15, 2^16, 2^17) x a prime cofactor
    // that brings n to 100..160 bits x the three sieve selectors
    for bits in ctx.pick(vec![100u32, 120, 143, 151, 160], vec![100, 120, 143, 151, 160, 180, 200]) {
        for p in [257u64, 1009, 8191, 8209, 16381, 16411, 17299, 32749, 32771, 43487, 65521, 65537, 131071, 131101] {
            let pb = 64 - p.leading_zeros();
            let q = rm::next_prime_w(&(W::ONE << (bits - pb - 1)));
            let qu: Uint = rm::w_to(&q);
            for &a in &[Algo::Qs, Algo::Mpqs, Algo::Siqs] {
                d.push(u(p) * qu, a, "fbase-divisor", Some(vec![u(p), qu]));
            }
        }
    }
    // (f3) one input per multiplier value the selection can return (116-bit semiprimes), SIQS and MPQS
    fam_multipliers(&mut d, &[Algo::Siqs, Algo::Mpqs], ctx.pick(40, 80), ctx.pick(80, 160), ctx.pick(1, 2));
    // (g) refusal clause: above the supported size
    for k in [501u32, 512, 513, 600, 1000] {
        let p = rm::next_prime_w(&(W::ONE << (k - 1)));
        let pu: Uint = rm::w_to(&p);
        for &a in &[Algo::Auto, Algo::Pm1, Algo::Ecm, Algo::Qs, Algo::Mpqs, Algo::Siqs] {
            let mut c = Case::new(pu, a, "oversize-prime");
            c.prefs.abort_after = Some(2);
            d.cases.push(c);
            d.expect.push(Expect { primes: None });
            let q = rm::next_prime_w(&(W::ONE << (k / 2)));
            let qu: Uint = rm::w_to(&q);
            let q2 = rm::next_prime_w(&(W::ONE << (k - k / 2 - 1)));
            let q2u: Uint = rm::w_to(&q2);
            if k > 512 {
                let mut c = Case::new(qu * q2u, a, "oversize-composite");
                c.prefs.abort_after = Some(2);
                d.cases.push(c);
                d.expect.push(Expect { primes: None });
            }
        }
    }
    let cfg = SweepCfg {
        shards: shards(),
        case_timeout: Duration::from_secs(ctx.pick(60, 300)),
    };
    let results = run_sweep(ctx, &d.cases, &cfg);
    timing(&d.cases, &results);
    let mut by_outcome: BTreeMap<String, u64> = BTreeMap::new();
    let mut nontrivial = std::collections::BTreeSet::new();
    for (i, r) in results.iter().enumerate() {
        let c = &d.cases[i];
        rep.evaluations += 1;
        let sizeclass = if c.n.bits() > 500 { "oversize" } else { "in-range" };
        match &r.outcome {
            Outcome::Ok(fs) => {
                *by_outcome.entry("ok".into()).or_default() += 1;
                if fs.iter().filter(|f| f.bits() > 8).count() >= 2 || c.n.bits() > 64 {
                    nontrivial.insert((c.n, algo_name(c.algo), c.prefs.encode()));
                }
                if c.tag != "small" && i % 4999 == 0 {
                    rep.sample(J::obj(vec![("case", c.json()), ("result", J::s(fmt_list(fs)))]));
                }
            }
            Outcome::Err => {
                *by_outcome.entry("err".into()).or_default() += 1;
                nontrivial.insert((c.n, algo_name(c.algo), c.prefs.encode()));
            }
            Outcome::Panic { site, msg } => {
                *by_outcome.entry("panic".into()).or_default() += 1;
                rep.violation(
                    format!(
                        "algo={};profile={};site={};size={}",
                        algo_name(c.algo),
                        ctx.profile,
                        site,
                        sizeclass
                    ),
                    format!(
                        "n={} ({} bits) panicked at {}: {}",
                        c.n,
                        c.n.bits(),
                        site,
                        msg.chars().take(200).collect::<String>()
                    ),
                    c.json(),
                );
            }
            Outcome::Hang => {
                *by_outcome.entry("hang".into()).or_default() += 1;
                rep.violation(
                    format!(
                        "algo={};profile={};site=hang;size={}",
                        algo_name(c.algo),
                        ctx.profile,
                        sizeclass
                    ),
                    format!("n={} did not return within the per-case cap", c.n),
                    c.json(),
                );
            }
            Outcome::Crash(s) => {
                *by_outcome.entry("crash".into()).or_default() += 1;
                if s.starts_with("machinery") {
                    rep.machinery(format!("{} on {}", s, c.encode()));
                } else {
                    rep.violation(
                        format!(
                            "algo={};profile={};site=crash:{};size={}",
                            algo_name(c.algo),
                            ctx.profile,
                            s,
                            sizeclass
                        ),
                        format!("n={} killed the process: {}", c.n, s),
                        c.json(),
                    );
                }
            }
        }
    }
    if rep.samples.is_empty() {
        rep.sample(d.cases[d.cases.len() - 1].json());
    }
    rep.nontrivial = nontrivial.len() as u64;
    rep.rule = "cases = every n in [0,2^15]/[0,2^18] x 10 selectors; all p*q (211<=p<=q<600/2^11), p*q*r, p^k<=2^64, p^2*q x 10 selectors; edge set {2^k +- d : k in {8,16,24,31,32,40,48,52,56,63,64}, d<=64} x 10 selectors; semiprimes p*q just below 2^64, 2^128 and just above 2^63, 2^127 (5 values of p); pool-prime multisets (<=2/3) x prefixes {1,96}; primes, prime squares and smooth*prime at 64,128,256,400,448,500 bits x 10 selectors; hard composites under a 3-poll abort budget; oversize (501,512,513,600,1000-bit) primes and composites. Each case runs in a subprocess shard in this build profile; oracle = the call returns (Ok or Err). A panic (with source site), abort/signal or per-case timeout is a violation keyed by (selector, profile, site, size class). Non-trivial = distinct cases that reached an algorithm beyond trial division (>=2 factors above 8 bits, Err, or n above 64 bits). Family multiplier: every product of 40 x 80 (thorough 80 x 160) consecutive primes after 2^57 and 2^58 goes through the real select_multiplier and one (two) input(s) per distinct multiplier value returned are factored with Siqs and Mpqs. Family fbase-divisor: p*q for 14 primes p on both sides of the sieve size classes (2^8..2^17) and a prime q bringing n to 100..160 (thorough: 200) bits x {Qs,Mpqs,Siqs}: a prime of the factor base divides n.".into();
    rep.set(
        "outcomes",
        J::O(by_outcome.iter().map(|(k, v)| (k.clone(), J::from(*v))).collect()),
    );
    rep.assumptions.push("panic = observable crash; stack exhaustion and aborts are observed as worker death".into());
    rep
}

// ------------------------------------------------------------------ C04 supplement

/// Free-running supplement of C04 (NOT the deciding step, which is the loom engine): real
/// rayon pools of every size 2..16 on a sub-corpus that completes, plus large inputs (where
/// rayon hands far-away chunks of the work range to the pool threads) under a poll-budget
/// abort. Same oracle: returns, no panic, product n, complete where the sequential run is.
pub fn run_c04_supp(ctx: &Ctx) -> Report {
    let mut rep = Report::new("model_checking");
    let mut d = Domain::new();
    let pool = prime_pool();
    let idx = |bits: u32| pool.iter().position(|p| p.bits() > bits).unwrap();
    let sub: Vec<Vec<Uint>> = vec![
        vec![pool[idx(31)], pool[idx(31) + 1]],
        vec![pool[idx(39)], pool[idx(47)]],
        vec![pool[idx(47)], pool[idx(51)]],
        vec![u(1000003), u(1000033), u(1000037), u(1000039)],
    ];
    for s in &sub {
        let n = product(s).unwrap();
        let mut primes = s.clone();
        primes.sort();
        for t in 1..=16usize {
            for a in [Algo::Auto, Algo::Siqs, Algo::Mpqs, Algo::Qs, Algo::Ecm] {
                if a == Algo::Qs && n.bits() > 72 {
                    continue;
                }
                for (lf, db) in [(None, None), (Some(30u64), Some(true))] {
                    let prefs = PrefSpec {
                        threads: Some(t),
                        large_factor: lf,
                        use_double: db,
                        ..Default::default()
                    };
                    d.push_prefs(n, a, "threads", Some(primes.clone()), prefs);
                }
            }
        }
    }
    // small inputs (30..61 bits): with a pool the parallel loops hand out items from the far end
    // of work ranges that a sequential run never reaches (MPQS polynomial blocks whose D lies far
    // above sqrt(n), more pool threads than SIQS has A values)
    for (a, b) in [(20947u64, 31267u64), (47087, 52433), (84421, 238709), (774919, 6393791), (1000003, 1000033), (843717811, 1459084399)] {
        let n = u(a) * u(b);
        for t in 1..=16usize {
            for alg in [Algo::Auto, Algo::Siqs, Algo::Mpqs, Algo::Qs] {
                let prefs = PrefSpec {
                    threads: Some(t),
                    ..Default::default()
                };
                d.push_prefs(n, alg, "threads-small", Some(vec![u(a), u(b)]), prefs);
            }
        }
    }
    // large inputs: the parallel loops start far into their work ranges
    for k in ctx.pick(vec![130u32, 260], vec![130, 200, 260, 300]) {
        let p = rm::next_prime_w(&(W::ONE << (k / 2)));
        let q = rm::next_prime_w(&(W::ONE << (k - k / 2 - 1)));
        let n: Uint = rm::w_to(&(p * q));
        for t in [2usize, 3, 16] {
            for a in [Algo::Mpqs, Algo::Siqs] {
                let prefs = PrefSpec {
                    threads: Some(t),
                    abort_after: Some(ctx.pick(24, 200)),
                    ..Default::default()
                };
                d.push_prefs(n, a, "large+abort", None, prefs);
            }
        }
    }
    let cfg = SweepCfg {
        shards: 4,
        // the slowest clean case of the quick tier takes about 9 s (chk profile); a deadlocked case costs the cap
        case_timeout: Duration::from_secs(ctx.pick(60, 600)),
    };
    let results = run_sweep(ctx, &d.cases, &cfg);
    timing(&d.cases, &results);
    let mut outcomes = std::collections::BTreeSet::new();
    for (i, r) in results.iter().enumerate() {
        let c = &d.cases[i];
        rep.evaluations += 1;
        let key = format!("supp;algo={};profile={}", algo_name(c.algo), ctx.profile);
        match &r.outcome {
            Outcome::Ok(fs) => {
                outcomes.insert((c.n, algo_name(c.algo), c.prefs.threads));
                let mut bad = check_product(c, fs).err();
                if let Some(p) = &d.expect[i].primes {
                    if fs != p {
                        bad = Some(format!("expected the complete factorization [{}]", fmt_list(p)));
                    }
                }
                if let Some(b) = bad {
                    rep.violation(
                        format!("{};what=bad-result", key),
                        format!("schedule-dependent? n={} prefs={} -> [{}]: {}", c.n, c.prefs.encode(), fmt_list(fs), b),
                        c.json(),
                    );
                }
            }
            Outcome::Err => {
                outcomes.insert((c.n, algo_name(c.algo), c.prefs.threads));
                if d.expect[i].primes.is_some() {
                    rep.violation(
                        format!("{};what=failure", key),
                        format!("n={} prefs={} -> Err although the single-threaded run is complete", c.n, c.prefs.encode()),
                        c.json(),
                    );
                }
            }
            Outcome::Panic { site, msg } => rep.violation(
                format!("{};what=panic;site={}", key, site),
                format!("n={} prefs={} panicked at {}: {}", c.n, c.prefs.encode(), site, msg.chars().take(200).collect::<String>()),
                c.json(),
            ),
            Outcome::Hang => rep.violation(
                format!("{};what=hang", key),
                format!("n={} prefs={} did not return within the cap", c.n, c.prefs.encode()),
                c.json(),
            ),
            Outcome::Crash(s) => {
                if s.starts_with("machinery") {
                    rep.machinery(format!("{} on {}", s, c.encode()));
                } else {
                    rep.violation(format!("{};what=crash", key), format!("n={} prefs={} killed the process: {}", c.n, c.prefs.encode(), s), c.json());
                }
            }
        }
    }
    rep.nontrivial = outcomes.len() as u64;
    rep.sample(d.cases[0].json());
    rep.sample(d.cases[d.cases.len() - 1].json());
    rep.set("supplementary_free_running_cases", J::from(d.cases.len()));
    rep.rule = "supplement (free-running, real rayon): 4 inputs x thread counts 1..16 x {Auto,Siqs,Mpqs,Qs,Ecm} x {default, large_factor=30+use_double}; 6 semiprimes of 30..61 bits x thread counts 1..16 x {Auto,Siqs,Mpqs,Qs}; 130-/260-bit (thorough: also 200, 300) semiprimes x {Mpqs,Siqs} x threads {2,3,16} under a poll-budget abort".into();
    rep.exhaustive = true;
    rep
}

pub fn replay(ctx: &Ctx, path: &std::path::Path) -> i32 {
    let s = std::fs::read_to_string(path).expect("replay file");
    // minimal extraction of the replay.case fields
    let get = |k: &str| -> String {
        let pat = format!("\"{}\":\"", k);
        let i = s.rfind(&pat).expect("field") + pat.len();
        let j = s[i..].find('"').unwrap() + i;
        s[i..j].to_string()
    };
    let c = Case {
        n: std::str::FromStr::from_str(&get("n")).unwrap(),
        algo: std::str::FromStr::from_str(&get("algo")).unwrap(),
        prefs: PrefSpec::decode(&get("prefs")),
        tag: get("tag"),
    };
    println!("replaying {} in profile {}", c.encode(), ctx.profile);
    let r = run_case(&c);
    println!("outcome: {:?} polls={} micros={}", r.outcome, r.polls, r.micros);
    match r.outcome {
        Outcome::Ok(fs) => {
            if check_product(&c, &fs).is_err() {
                1
            } else {
                0
            }
        }
        Outcome::Err => 0,
        _ => 1,
    }
}
