//! C13: sieve reports list every factor-base prime dividing each candidate.
//! Oracle is root-table based: position r of block b is divisible by prime i iff
//! (b*32768 + r) mod p_i is one of its two roots.

use bnum::cast::CastFrom;
use bnum::types::I256;
use rayon::prelude::*;
use yamaquasi::fbase::{self, FBase};
use yamaquasi::qsieve;
use yamaquasi::sieve::{self, Sieve, SieveRecycle, BLOCK_SIZE};
use yamaquasi::{Int, Uint};

use crate::common::*;
use crate::refmodel::{self as rm, W};

#[derive(Clone, Debug)]
struct Config {
    n: Uint,
    fbsize: u32,
    nblocks: usize,
    threshold: u8,
    use_root: bool,
    roots: &'static str,
    reuse: &'static str,
}

struct Tally {
    evals: u64,
    reported: u64,
    incidences: u64,
    overflow_allowances: u64,
    bad: Vec<(String, String)>,
}

fn qs_roots(n: &Uint, fb: &FBase) -> (Vec<u32>, Vec<u32>) {
    let qs = qsieve::SieveQS::new(*n, fb, fb.bound() as u64, false);
    let mut r1 = vec![0u32; fb.len()];
    let mut r2 = vec![0u32; fb.len()];
    for i in 0..fb.len() {
        let (a, b) = qsieve::verif_access::prepare_prime_fwd(&qs, i);
        r1[i] = a;
        r2[i] = b;
    }
    (r1, r2)
}

/// Make two roots distinct where the sieve requires it (primes above the block size).
fn fix_large(fb: &FBase, r1: &mut [u32], r2: &mut [u32]) {
    for i in 0..fb.len() {
        let p = fb.p(i);
        if p as usize >= 32768 && r1[i] == r2[i] {
            r2[i] = (r1[i] + 1) % p;
        }
    }
}

fn synth_roots(fb: &FBase, kind: &str) -> (Vec<u32>, Vec<u32>) {
    // Base: two distinct hashed roots per prime. The special values of each kind are given to
    // a few primes of every size class only (position in class < 8), so that no position
    // accumulates more log weight than a real polynomial value could (the sieve adds
    // log2(p) into one byte per position).
    let mut r1 = vec![0u32; fb.len()];
    let mut r2 = vec![0u32; fb.len()];
    let mut class_pos = 0usize;
    let mut last_log = 0;
    for i in 0..fb.len() {
        let p = fb.p(i);
        let log = 32 - p.leading_zeros();
        if log != last_log {
            class_pos = 0;
            last_log = log;
        } else {
            class_pos += 1;
        }
        let h = mix64((i as u64).wrapping_mul(0x9e3779b97f4a7c15) ^ p as u64);
        r1[i] = (h % p as u64) as u32;
        r2[i] = ((h >> 32) % p as u64) as u32;
        if r1[i] == r2[i] && p > 2 {
            r2[i] = (r1[i] + 1) % p;
        }
        // Synthetic tables must stay realistic: a real polynomial value has at most ~150 bits,
        // so the log weight piled on one position has to stay well below the byte the sieve
        // accumulates into. With large bases only some size classes take part.
        let top_log = 32 - fb.p(fb.len() - 1).leading_zeros();
        let heavy_ok = log <= 12 || log == 16 || log == 17 || log == top_log;
        if kind == "bucket-pile" {
            // Forty primes of each hashed size class (bit lengths 16..18) pile into ONE 256-wide
            // bucket of block 1 (an odd-numbered block), eight per position on five positions:
            // the bucket (32 entries) overflows into the class's overflow list without exceeding
            // its capacity, and the piled positions carry enough weight to be reported. With a
            // one-block interval the pile falls outside and the table degenerates to hashed roots.
            if (16..=18).contains(&log) && class_pos < 40 {
                let o = BLOCK_SIZE as u32 + 256 * (10 + 3 * (log - 16)) + 11 + 50 * (class_pos as u32 / 8);
                r1[i] = o % p;
                if r2[i] == r1[i] {
                    r2[i] = (r1[i] + 1) % p;
                }
            }
            continue;
        }
        if class_pos < 8 {
            match kind {
                "zero" => {
                    if class_pos == 0 && heavy_ok {
                        r1[i] = 0;
                        r2[i] = if p < 16384 { 0 } else { 1 };
                    }
                }
                "p-1" => {
                    if class_pos < 2 {
                        r1[i] = p - 1;
                        r2[i] = if p > 2 { p - 2 } else { 0 };
                    }
                }
                "equal-small" => {
                    // single root marker: one prime per size class below 2^14 (a real polynomial
                    // has a single root only modulo the <= 15 primes dividing A, D or kn)
                    if class_pos == 1 && p < 16384 {
                        r2[i] = r1[i];
                    }
                }
                "bucket-edges" => {
                    // staggered by class so that a position is shared by few primes
                    if log < 13 || !(log == 13 || log == 16 || log == 17 || log == top_log) {
                        continue; // cursor-sieved small primes and most classes keep hashed roots
                    }
                    let e = [255u32, 256, 16383, 16384, 32767, 0, 65535, 65536];
                    let k = (class_pos + log as usize) % 8;
                    r1[i] = e[k] % p;
                    r2[i] = e[(k + 1) % 8] % p;
                    if r1[i] == r2[i] && p > 2 {
                        r2[i] = (r1[i] + 1) % p;
                    }
                }
                _ => unreachable!(),
            }
        }
    }
    fix_large(fb, &mut r1, &mut r2);
    (r1, r2)
}

fn shifted(fb: &FBase, r1: &[u32], r2: &[u32], shift: u64) -> (Vec<u32>, Vec<u32>) {
    // roots of the same polynomial on the interval translated by `shift`
    let f = |r: u32, p: u32| -> u32 { ((r as u64 + p as u64 - shift % p as u64) % p as u64) as u32 };
    let a: Vec<u32> = (0..fb.len()).map(|i| f(r1[i], fb.p(i))).collect();
    let b: Vec<u32> = (0..fb.len()).map(|i| f(r2[i], fb.p(i))).collect();
    (a, b)
}

/// Check all blocks of one sieve pass. Returns the recycled tables.
fn check_pass(c: &Config, fb: &FBase, st: &mut Sieve, r1: &[u32], r2: &[u32], pass: &str, t: &mut Tally) {
    let m = c.nblocks * BLOCK_SIZE;
    let root = if c.use_root { Some((m * 7 / 20) as u32) } else { None };
    for b in 0..c.nblocks {
        st.sieve_block();
        if std::env::var("VERIF_DEBUG").is_ok() {
            let mx = st.blk.iter().enumerate().max_by_key(|x| *x.1).unwrap();
            eprintln!("DEBUG {:?} {} block {} max blk byte {} at {}", c, pass, b, mx.1, mx.0);
        }
        let (idxs, facss) = st.smooths(c.threshold, root, [r1, r2]);
        t.evals += 1;
        t.reported += idxs.len() as u64;
        if !idxs.is_empty() {
            // expected factors of every reported position, from the root tables
            let mut slot = vec![u32::MAX; BLOCK_SIZE];
            for (k, &r) in idxs.iter().enumerate() {
                slot[r as usize] = k as u32;
            }
            let mut expected: Vec<Vec<usize>> = vec![vec![]; idxs.len()];
            let base = (b * BLOCK_SIZE) as u64;
            for i in 0..fb.len() {
                let p = fb.p(i) as u64;
                let mut roots = vec![r1[i] as u64];
                if r2[i] != r1[i] {
                    roots.push(r2[i] as u64);
                }
                for r in roots {
                    // first x >= base with x = r mod p
                    let mut x = base + (r + p - base % p) % p;
                    while x < base + BLOCK_SIZE as u64 {
                        let k = slot[(x - base) as usize];
                        if k != u32::MAX {
                            expected[k as usize].push(i);
                        }
                        x += p;
                    }
                }
            }
            let ovf = sieve::verif_access::table_overflows(st);
            for (k, &r) in idxs.iter().enumerate() {
                for &i in &expected[k] {
                    t.incidences += 1;
                    if !facss[k].contains(&i) {
                        // documented, counted loss: the prime's size class overflowed its store
                        let p = fb.p(i);
                        let log = 32 - p.leading_zeros() as usize;
                        if (16..19).contains(&log) {
                            if let Some(&(n_over, cap)) = ovf.get(log - 16) {
                                if n_over > cap {
                                    t.overflow_allowances += 1;
                                    continue;
                                }
                            }
                        }
                        if t.bad.len() < 6 {
                            t.bad.push((
                                format!("what=missing-prime;class={};pass={}", log, pass),
                                format!(
                                    "{:?} {}: block {} position {} is divisible by base prime #{} = {} (roots {},{}) but the report lists {:?}",
                                    c, pass, b, r, i, p, r1[i], r2[i],
                                    facss[k].iter().map(|&j| fb.p(j)).collect::<Vec<_>>()
                                ),
                            ));
                        }
                    }
                }
            }
        }
        st.next_block();
    }
}

fn run_config(c: &Config) -> Tally {
    let mut t = Tally {
        evals: 0,
        reported: 0,
        incidences: 0,
        overflow_allowances: 0,
        bad: vec![],
    };
    let r = guarded(|| {
        let fb = FBase::new(Int::cast_from(c.n), c.fbsize);
        let (r1, r2) = match c.roots {
            "qs" => {
                let (mut a, mut b) = qs_roots(&c.n, &fb);
                fix_large(&fb, &mut a, &mut b);
                (a, b)
            }
            k => synth_roots(&fb, k),
        };
        let m = (c.nblocks * BLOCK_SIZE) as u64;
        match c.reuse {
            "fresh" => {
                let mut st = Sieve::new(0, c.nblocks, &fb, [&r1, &r2], None);
                check_pass(c, &fb, &mut st, &r1, &r2, "fresh", &mut t);
            }
            "recycled" => {
                // a first polynomial fills the tables, then they are recycled for a second one
                let (q1, q2) = shifted(&fb, &r1, &r2, 12345);
                let mut st = Sieve::new(0, c.nblocks, &fb, [&q1, &q2], None);
                for _ in 0..c.nblocks {
                    st.sieve_block();
                    st.next_block();
                }
                let rec: SieveRecycle = st.recycle();
                let mut st = Sieve::new(0, c.nblocks, &fb, [&r1, &r2], Some(rec));
                check_pass(c, &fb, &mut st, &r1, &r2, "recycled", &mut t);
            }
            "rehash" => {
                // classical QS: after nblocks blocks, roots are shifted and the tables rehashed
                let mut st = Sieve::new(0, c.nblocks, &fb, [&r1, &r2], None);
                check_pass(c, &fb, &mut st, &r1, &r2, "before-rehash", &mut t);
                let (s1, s2) = shifted(&fb, &r1, &r2, m);
                st.rehash([&s1, &s2]);
                check_pass(c, &fb, &mut st, &s1, &s2, "after-rehash", &mut t);
                let (u1, u2) = shifted(&fb, &s1, &s2, m);
                st.rehash([&u1, &u2]);
                check_pass(c, &fb, &mut st, &u1, &u2, "after-2nd-rehash", &mut t);
            }
            _ => unreachable!(),
        }
        // consequence clause on the classical QS configuration: trial division by the listed
        // primes leaves 1 or a cofactor without base prime divisors
        if c.roots == "qs" && c.reuse == "fresh" && c.nblocks == 1 {
            let qs = qsieve::SieveQS::new(c.n, &fb, fb.bound() as u64, false);
            let (nsqrt, only_odds, _) = qsieve::verif_access::sieve_params(&qs);
            let mut st = Sieve::new(0, 1, &fb, [&r1, &r2], None);
            st.sieve_block();
            let (idxs, facss) = st.smooths(c.threshold, None, [&r1, &r2]);
            let step = if only_odds { 2i64 } else { 1 };
            for (k, &r) in idxs.iter().enumerate().take(400) {
                let y = nsqrt + I256::from(step * r as i64);
                let v = y * y - I256::cast_from(c.n);
                t.evals += 1;
                // single large primes below bound^2 (a larger cofactor need not be prime)
                let maxlarge = ((fb.bound() as u64) * (fb.bound() as u64) - 1).min(u32::MAX as u64);
                if let Some(((p, q), factors)) = fbase::cofactor(&fb, &v, &facss[k], maxlarge, false) {
                    let cof = p * q;
                    // cofactor must have no base prime divisor
                    for i in 0..fb.len() {
                        let bp = fb.p(i) as u64;
                        if cof > 1 && cof % bp == 0 {
                            t.bad.push((
                                "what=cofactor-not-coprime".into(),
                                format!("{:?}: position {}: cofactor {} of the value still has the base prime {}", c, r, cof, bp),
                            ));
                            break;
                        }
                    }
                    // and the factorization multiplies back
                    let mut prod = W::from_digit(cof);
                    for &(f, e) in &factors {
                        if f > 0 {
                            for _ in 0..e {
                                prod = prod * W::from_digit(f as u64);
                            }
                        }
                    }
                    let vabs = rm::w_from(&Uint::cast_from(v.unsigned_abs()));
                    if prod != vabs {
                        t.bad.push((
                            "what=cofactor-product".into(),
                            format!("{:?}: position {}: factors x cofactor != |value|", c, r),
                        ));
                    }
                }
            }
        }
    });
    if let Err(p) = r {
        t.bad.push((format!("what=panic;site={}", p.site), format!("{:?}: panic {}", c, p.short())));
    }
    t
}

pub fn run(ctx: &Ctx) -> Report {
    let mut rep = Report::new("exploration");
    // moduli of 100 and 128 bits (n = 1 mod 8 and n = 3 mod 8: both parities of the QS polynomial)
    let n1: Uint = rm::w_to(&rm::next_prime_w(&((W::ONE << 100) + W::from_digit(12345))));
    let n2 = Uint::from_digit(1000003) * Uint::from_digit(1000033) * Uint::from_digit(1000037) * Uint::from_digit(1000039);
    let mut fbsizes: Vec<u32> = vec![40, 500, 540, 1700, 1850, 3200, 3400];
    if !ctx.quick() {
        fbsizes.extend([21000, 22500, 60000]);
    } else {
        // 12500 primes reach above 2^18 (the large-table class) while 20 blocks are longer than
        // those primes: they hit the interval several times
        fbsizes.extend([8000, 12500]);
    }
    let mut configs = vec![];
    for n in [n1, n2] {
        for &fbsize in &fbsizes {
            for nblocks in [1usize, 2, 3, 5, 20] {
                if fbsize >= 20000 && nblocks == 3 {
                    continue;
                }
                for threshold in [40u8, 60, 80, 120] {
                    for use_root in [false, true] {
                        for roots in ["qs", "zero", "p-1", "equal-small", "bucket-edges", "bucket-pile"] {
                            for reuse in ["fresh", "recycled", "rehash"] {
                                // thin the product deterministically: every combination of
                                // (fbsize, nblocks, roots, reuse) appears; thresholds/root rotate
                                let h = (fbsize as usize + nblocks * 7 + roots.len() * 3 + reuse.len()) % 4;
                                let full = !ctx.quick() && fbsize < 20000;
                                if !full && (h != [40u8, 60, 80, 120].iter().position(|&x| x == threshold).unwrap() || use_root != (h % 2 == 0)) {
                                    continue;
                                }
                                if reuse == "rehash" && use_root {
                                    continue; // rehash is the classical QS mode (no root)
                                }
                                configs.push(Config { n, fbsize, nblocks, threshold, use_root, roots, reuse });
                            }
                        }
                    }
                }
            }
        }
    }
    let res: Vec<Tally> = configs.par_iter().map(run_config).collect();
    let mut reported = 0;
    let mut inc = 0;
    let mut allow = 0;
    for (c, t) in configs.iter().zip(res) {
        rep.evaluations += t.evals;
        reported += t.reported;
        inc += t.incidences;
        allow += t.overflow_allowances;
        for (k, w) in t.bad.into_iter().take(3) {
            rep.violation(format!("roots={};reuse={};{}", c.roots, c.reuse, k), w.clone(), J::obj(vec![("case", J::s(w))]));
        }
    }
    rep.nontrivial = inc;
    rep.set("configurations", J::from(configs.len()));
    rep.set("reported_positions", J::from(reported));
    rep.set("position_prime_incidences_checked", J::from(inc));
    rep.set("overflow_allowances_taken", J::from(allow));
    rep.sample(J::s(format!("{:?}", configs[0])));
    rep.sample(J::s(format!("{:?}", configs[configs.len() / 2])));
    rep.sample(J::s(format!("{:?}", configs[configs.len() - 1])));
    rep.rule = format!("two moduli (100-bit n = 3 mod 8 style and a 4-prime 80-bit n) x factor base sizes {:?} (largest prime just below/above 2^13, 2^15, 2^16, 2^17, quick: above 2^18 with intervals longer than the primes; thorough: 2^19 and a 60k-prime base) x interval lengths {{1,2,3,5,20}} blocks x thresholds {{40,60,80,120}} x root compensation on/off x root tables {{real classical-QS roots, all-zero, p-1/p-2, equal roots (single-root marker) for small primes, bucket-edge offsets, forty primes per hashed class piled into one bucket of an odd block (bucket overflow list in use, below its capacity)}} x state {{fresh, recycled from a previous polynomial, rehashed twice with shifted roots}} (quick: every (base, length, table, state) combination with a rotating threshold/root; thorough: the full product below 20k primes); EVERY block of every interval is sieved and for EVERY reported position the set of base primes that divide it according to the root tables must be contained in the reported list, except for counted overflow losses of a size class whose overflow store is full. On the QS configuration trial division by the listed primes must leave a cofactor without base-prime divisors. distinct_nontrivial = (position, prime) incidences checked.", fbsizes);
    rep.assumptions.push("divisibility is defined by the root tables handed to the sieve (independent of the polynomial)".into());
    rep
}
