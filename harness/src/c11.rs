//! C11: explicit-state search over add-histories on the real RelationSet.
//! State = the history that reaches it (replayed on a fresh store); invariants are
//! evaluated with harness arithmetic on every reached state; final_step on reached states.

use std::collections::HashSet;
use std::sync::Mutex;

use rayon::prelude::*;
use yamaquasi::fbase::FBase;
use yamaquasi::relations::{self, final_step, verif_access as ra, Relation, RelationSet};
use yamaquasi::{Int, Uint, Verbosity};

use crate::common::*;
use crate::refmodel as rm;

fn mulmod(a: u64, b: u64, n: u64) -> u64 {
    ((a as u128 * b as u128) % n as u128) as u64
}
fn powmod(mut a: u64, mut e: u64, n: u64) -> u64 {
    let mut r = 1 % n;
    a %= n;
    while e > 0 {
        if e & 1 == 1 {
            r = mulmod(r, a, n);
        }
        a = mulmod(a, a, n);
        e >>= 1;
    }
    r
}

/// Tonelli-Shanks (reference), p odd prime, returns a root of a if it is a residue.
fn sqrt_prime(a: u64, p: u64) -> Option<u64> {
    let a = a % p;
    if a == 0 {
        return Some(0);
    }
    if powmod(a, (p - 1) / 2, p) != 1 {
        return None;
    }
    if p % 4 == 3 {
        return Some(powmod(a, (p + 1) / 4, p));
    }
    let mut q = p - 1;
    let mut s = 0;
    while q % 2 == 0 {
        q /= 2;
        s += 1;
    }
    let mut z = 2;
    while powmod(z, (p - 1) / 2, p) != p - 1 {
        z += 1;
    }
    let mut m = s;
    let mut c = powmod(z, q, p);
    let mut t = powmod(a, q, p);
    let mut r = powmod(a, (q + 1) / 2, p);
    while t != 1 {
        let mut i = 0;
        let mut tt = t;
        while tt != 1 {
            tt = mulmod(tt, tt, p);
            i += 1;
        }
        let b = powmod(c, 1 << (m - i - 1), p);
        m = i;
        c = mulmod(b, b, p);
        t = mulmod(t, c, p);
        r = mulmod(r, b, p);
    }
    Some(r)
}

fn inv_mod(a: u64, m: u64) -> u64 {
    // extended Euclid on i128
    let (mut r0, mut r1) = (m as i128, (a % m) as i128);
    let (mut t0, mut t1) = (0i128, 1i128);
    while r1 != 0 {
        let q = r0 / r1;
        (r0, r1) = (r1, r0 - q * r1);
        (t0, t1) = (t1, t0 - q * t1);
    }
    assert_eq!(r0, 1);
    t0.rem_euclid(m as i128) as u64
}

#[derive(Clone, Debug)]
struct Modulus {
    name: &'static str,
    /// modulus of the relation store
    n: u64,
    /// modulus handed to final_step (without multiplier)
    norig: u64,
    /// prime power factorization of n
    pf: Vec<(u64, u32)>,
}

/// Square root of t modulo n (all prime powers; t coprime to n), or None.
fn sqrt_mod_n(t: u64, m: &Modulus) -> Option<u64> {
    let mut x = 0u64;
    let mut md = 1u64;
    for &(p, e) in &m.pf {
        let pe = p.pow(e);
        let tp = t % pe;
        if tp % p == 0 {
            return None;
        }
        let mut r = if p == 2 {
            return None;
        } else {
            sqrt_prime(tp % p, p)?
        };
        let mut cur = p;
        for _ in 1..e {
            // Hensel: r' = r + cur * k, (r + cur k)^2 = t mod cur*p
            let next = cur * p;
            let diff = ((tp % next) as i128 - (r as i128 * r as i128) % next as i128).rem_euclid(next as i128) as u64;
            let k = mulmod(diff / cur % p, inv_mod(2 * r % p, p), p);
            r = (r + cur * k) % next;
            cur = next;
        }
        // CRT
        let k = mulmod(((r as i128 - x as i128).rem_euclid(pe as i128)) as u64, inv_mod(md % pe, pe), pe);
        x += md * k;
        md *= pe;
    }
    Some(x % m.n)
}

#[derive(Clone, Debug)]
struct Sym {
    name: String,
    rel: Relation,
    pq: Option<(u64, u64)>,
}

/// Reference congruence: x^2 = sign * prod p^e * cofactor (mod n).
fn congruence_holds(r: &Relation, n: u64) -> bool {
    let x = (rm::w_from(&r.x) % rm::w_u64(n)).digits()[0];
    let mut v = r.cofactor % n;
    let mut neg = false;
    for &(p, e) in &r.factors {
        if p == -1 {
            if e % 2 == 1 {
                neg = !neg;
            }
        } else if p <= 0 {
            return false;
        } else {
            v = mulmod(v, powmod(p as u64, e, n), n);
        }
    }
    if neg {
        v = (n - v) % n;
    }
    mulmod(x, x, n) == v
}

/// Build a valid relation with the requested cofactor structure by a deterministic search.
fn make_rel(m: &Modulus, fbp: &[u64], cof: u64, salt: u64, want_two: bool, explicit_even_sign: bool) -> Relation {
    try_make_rel(m, fbp, cof, salt, want_two, explicit_even_sign, 5_000_000).expect("alphabet construction does not terminate")
}

fn try_make_rel(m: &Modulus, fbp: &[u64], cof: u64, salt: u64, want_two: bool, explicit_even_sign: bool, cap: u64) -> Option<Relation> {
    let mut k = salt;
    loop {
        if k - salt > cap {
            return None;
        }
        k += 1;
        if std::env::var("VERIF_DEBUG").is_ok() && (k - salt) % 100000 == 0 {
            eprintln!("make_rel cof={} salt={} k={}", cof, salt, k);
        }
        // exponent vector from k in mixed radix; sign from parity
        let mut e = vec![0u64; fbp.len()];
        let mut kk = k;
        let neg = kk % 2 == 1;
        kk /= 2;
        for i in 0..fbp.len() {
            e[i] = kk % 3;
            kk /= 3;
        }
        if want_two {
            // an odd power of 2 is impossible when (2/n) = -1 (all base primes have equal
            // characters modulo the factors of n): alternate exponents 1 and 2
            if let Some(i) = fbp.iter().position(|&p| p == 2) {
                e[i] = 1 + (k / 2) % 2;
            }
        }

        let mut s = 1u64;
        let mut ok = true;
        for i in 0..fbp.len() {
            for _ in 0..e[i] {
                s = match s.checked_mul(fbp[i]) {
                    Some(v) if v < (1 << 40) => v,
                    _ => {
                        ok = false;
                        1
                    }
                };
            }
        }
        if !ok || e.iter().all(|&x| x == 0) {
            continue;
        }
        let t = mulmod(s % m.n, cof % m.n, m.n);
        let t = if neg { (m.n - t) % m.n } else { t };
        let Some(x) = sqrt_mod_n(t, m) else { continue };
        let mut factors: Vec<(i64, u64)> = vec![];
        if neg {
            factors.push((-1, 1));
        } else if explicit_even_sign {
            factors.push((-1, 2));
        }
        for i in 0..fbp.len() {
            if e[i] > 0 {
                factors.push((fbp[i] as i64, e[i]));
            }
        }
        let r = Relation {
            x: Uint::from_digit(x),
            cofactor: cof,
            cyclelen: 1,
            factors,
        };
        assert!(congruence_holds(&r, m.n), "alphabet construction");
        return Some(r);
    }
}

const MAXLARGE: u64 = 1000;

fn alphabet(m: &Modulus, fbp: &[u64]) -> Vec<Sym> {
    // large primes for which a relation with that cofactor exists at all (its quadratic
    // characters modulo the factors of n must be compensable by the factor base)
    let mut lg: Vec<u64> = vec![];
    let mut c = 101;
    while lg.len() < 7 {
        if rm::is_prime_u64(c) && m.n % c != 0 && try_make_rel(m, fbp, c, 1, false, false, 3000).is_some() {
            lg.push(c);
        }
        c += 2;
        assert!(c < MAXLARGE, "not enough usable large primes");
    }
    #[allow(non_snake_case)]
    let LARGE = lg;
    let mut v = vec![];
    let mut add = |name: &str, rel: Relation, pq: Option<(u64, u64)>| {
        v.push(Sym {
            name: name.to_string(),
            rel,
            pq,
        })
    };
    add("C1", make_rel(m, fbp, 1, 10, false, false), None);
    add("C2", make_rel(m, fbp, 1, 200, false, false), None);
    add("C3two", make_rel(m, fbp, 1, 3000, true, false), None);
    add("C4sign2", make_rel(m, fbp, 1, 4000, false, true), None);
    let p1a = make_rel(m, fbp, LARGE[0], 50, false, false);
    add("P1a", p1a.clone(), None);
    add("P1b", make_rel(m, fbp, LARGE[0], 700, false, false), None);
    add("P1dup", p1a, None);
    add("P2a", make_rel(m, fbp, LARGE[1], 90, false, false), None);
    add("P2b", make_rel(m, fbp, LARGE[1], 900, false, true), None);
    add("P3a", make_rel(m, fbp, LARGE[2], 120, true, false), None);
    add("P4a", make_rel(m, fbp, LARGE[3], 150, false, false), None);
    let d = |i: usize, j: usize, salt: u64, es: bool| -> (Relation, Option<(u64, u64)>) {
        (make_rel(m, fbp, LARGE[i] * LARGE[j], salt, false, es), Some((LARGE[i], LARGE[j])))
    };
    let (r, pq) = d(0, 1, 20, false);
    add("D12", r, pq);
    let (r, pq) = d(1, 2, 40, true);
    add("D23", r, pq);
    let (r, pq) = d(2, 3, 60, false);
    add("D34", r, pq);
    let (r, pq) = d(3, 4, 80, false);
    add("D45", r, pq);
    let (r, pq) = d(0, 2, 100, false);
    add("D13", r, pq);
    // reversed order of the pair in pq
    let (r, _) = d(1, 3, 130, false);
    add("D42rev", r, Some((LARGE[3], LARGE[1])));
    let (r, pq) = d(1, 1, 160, false);
    add("D22sq", r, pq);
    let (r, pq) = d(5, 6, 180, false);
    add("D67", r, pq);
    v
}

struct Violation11 {
    key: String,
    what: String,
    hist: Vec<usize>,
}

fn canon(rs: &RelationSet) -> u64 {
    // canonical hash of the observable state: sorted cycles, partial, doubles
    let mut items: Vec<String> = vec![];
    for c in &rs.cycles {
        let mut f = c.factors.clone();
        f.sort();
        items.push(format!("c{}:{:?}", c.x, f));
    }
    items.sort();
    for (k, r) in ra::partial(rs) {
        items.push(format!("p{}:{}:{}", k, r.x, r.cyclelen));
    }
    for (k, r) in ra::doubles(rs) {
        items.push(format!("d{:?}:{}", k, r.x));
    }
    let mut h = 0xcbf29ce484222325u64;
    for it in items {
        for b in it.bytes() {
            h ^= b as u64;
            h = h.wrapping_mul(0x100000001b3);
        }
        h = mix64(h);
    }
    h
}

fn check_state(m: &Modulus, rs: &RelationSet, syms: &[Sym], hist: &[usize], out: &mut Vec<Violation11>) {
    let desc = || hist.iter().map(|&i| syms[i].name.clone()).collect::<Vec<_>>().join(",");
    for c in &rs.cycles {
        if c.cofactor != 1 || !congruence_holds(c, m.n) {
            out.push(Violation11 {
                key: format!("modulus={};what=false-cycle", m.name),
                what: format!("history [{}] on n={}: published relation x={} cofactor={} factors={:?} is not a congruence", desc(), m.n, c.x, c.cofactor, c.factors),
                hist: hist.to_vec(),
            });
            return;
        }
        let rt = ra::pack_unpack(c);
        if rt.x != c.x || rt.cofactor != c.cofactor || rt.cyclelen != c.cyclelen || !congruence_holds(&rt, m.n) {
            out.push(Violation11 {
                key: format!("modulus={};what=pack-roundtrip", m.name),
                what: format!("history [{}] on n={}: compact form of a published relation decodes to {:?}", desc(), m.n, rt),
                hist: hist.to_vec(),
            });
            return;
        }
    }
    for (k, r) in ra::partial(rs) {
        if r.cofactor != k || k >= rs.maxlarge || !congruence_holds(&r, m.n) {
            out.push(Violation11 {
                key: format!("modulus={};what=false-partial", m.name),
                what: format!("history [{}] on n={}: pending relation for large prime {} is x={} cofactor={} factors={:?}: not a congruence", desc(), m.n, k, r.x, r.cofactor, r.factors),
                hist: hist.to_vec(),
            });
            return;
        }
    }
    let dd = ra::doubles(rs);
    let rev: HashSet<(u32, u32)> = ra::doubles_rev(rs).into_iter().collect();
    if rev.len() != dd.len() {
        out.push(Violation11 {
            key: format!("modulus={};what=doubles-rev-mismatch", m.name),
            what: format!("history [{}]: {} pending doubles but {} reverse keys", desc(), dd.len(), rev.len()),
            hist: hist.to_vec(),
        });
        return;
    }
    for ((p, q), r) in dd {
        if r.cofactor != p as u64 * q as u64 || !congruence_holds(&r, m.n) || !rev.contains(&(q, p)) {
            out.push(Violation11 {
                key: format!("modulus={};what=false-double", m.name),
                what: format!("history [{}] on n={}: pending double ({},{}) holds x={} cofactor={}", desc(), m.n, p, q, r.x, r.cofactor),
                hist: hist.to_vec(),
            });
            return;
        }
    }
}

fn replay_history(m: &Modulus, fblen: usize, syms: &[Sym], hist: &[usize]) -> Result<RelationSet, Panicked> {
    replay_history_ml(m, fblen, syms, hist, MAXLARGE)
}

fn replay_history_ml(m: &Modulus, fblen: usize, syms: &[Sym], hist: &[usize], maxlarge: u64) -> Result<RelationSet, Panicked> {
    guarded(|| {
        let mut rs = RelationSet::new(Uint::from_digit(m.n), fblen, maxlarge);
        for &i in hist {
            rs.add(syms[i].rel.clone(), syms[i].pq);
        }
        rs
    })
}

fn check_final(m: &Modulus, fb: &FBase, rels: &[Relation], desc: &str, hist: &[usize], out: &mut Vec<Violation11>) -> bool {
    if rels.len() < 2 {
        return false;
    }
    let n = Uint::from_digit(m.norig);
    match guarded(|| final_step(&n, fb, rels, Verbosity::Silent)) {
        Err(p) => {
            out.push(Violation11 {
                key: format!("modulus={};what=final-step-panic;site={}", m.name, p.site),
                what: format!("{}: final_step panicked: {}", desc, p.short()),
                hist: hist.to_vec(),
            });
            false
        }
        Ok(ds) => {
            for d in &ds {
                let dv = rm::w_from(d);
                let nv = rm::w_u64(m.norig);
                if dv <= rm::W::ONE || dv >= nv || !(nv % dv).is_zero() {
                    out.push(Violation11 {
                        key: format!("modulus={};what=improper-divisor", m.name),
                        what: format!("{}: final_step returned {} for n={}", desc, d, m.norig),
                        hist: hist.to_vec(),
                    });
                    return false;
                }
            }
            !ds.is_empty()
        }
    }
}

fn moduli() -> Vec<Modulus> {
    let (p, q, r) = (1000003u64, 1000033, 1000037);
    let (a, b) = (1073741827u64, 1073741831); // 2^30 + 3, 2^30 + 7
    vec![
        Modulus { name: "pq", n: a * b, norig: a * b, pf: vec![(a, 1), (b, 1)] },
        Modulus { name: "pqr", n: p * q * r, norig: p * q * r, pf: vec![(p, 1), (q, 1), (r, 1)] },
        Modulus { name: "p^2", n: a * a, norig: a * a, pf: vec![(a, 2)] },
        Modulus { name: "prime", n: 1152921504606847009, norig: 1152921504606847009, pf: vec![(1152921504606847009, 1)] },
        Modulus { name: "3pq(multiplier)", n: 3 * p * q, norig: p * q, pf: vec![(3, 1), (p, 1), (q, 1)] },
        Modulus { name: "7*P(factor-in-base)", n: 7 * a, norig: 7 * a, pf: vec![(7, 1), (a, 1)] },
    ]
}

pub fn run(ctx: &Ctx) -> Report {
    let mut rep = Report::new("model_checking");
    let maxlen = ctx.pick(5usize, 6usize);
    let replen = ctx.pick(3usize, 4usize);
    let all_viol: Mutex<Vec<(String, Violation11, Vec<String>)>> = Mutex::new(vec![]);
    let mut total_states = 0u64;
    let mut total_hist = 0u64;
    let mut total_adds = 0u64;
    let mut finals = 0u64;
    let mut finals_split = 0u64;
    let mut max_cycles = 0usize;
    for m in moduli() {
        assert!(rm::is_prime_u64(m.pf[0].0));
        let fb = FBase::new(Int::from(m.n as i64), 8);
        let fbp: Vec<u64> = (0..fb.len()).map(|i| fb.p(i) as u64).filter(|&p| m.n % p != 0).take(6).collect();
        if std::env::var("VERIF_DEBUG").is_ok() {
            eprintln!("modulus {} n={} fb.len={} fbp={:?}", m.name, m.n, fb.len(), fbp);
        }
        let syms = alphabet(&m, &fbp);
        let names: Vec<String> = syms.iter().map(|s| s.name.clone()).collect();
        let ns = syms.len();
        // every alphabet relation survives the compact form
        for s in &syms {
            let rt = ra::pack_unpack(&s.rel);
            if rt.x != s.rel.x || rt.cofactor != s.rel.cofactor || !congruence_holds(&rt, m.n) {
                all_viol.lock().unwrap().push((
                    m.name.to_string(),
                    Violation11 {
                        key: format!("modulus={};what=pack-roundtrip", m.name),
                        what: format!("compact form of {} = {:?} decodes to {:?}", s.name, s.rel, rt),
                        hist: vec![],
                    },
                    names.clone(),
                ));
            }
        }
        // histories: all sequences without repetition of length <= maxlen, all sequences of
        // length <= replen with repetition; sharded by the first two symbols
        let shards: Vec<(usize, usize)> = (0..ns).flat_map(|i| (0..ns).map(move |j| (i, j))).collect();
        struct ShardOut {
            states: HashSet<u64>,
            hist: u64,
            adds: u64,
            finals: u64,
            finals_split: u64,
            max_cycles: usize,
            viol: Vec<Violation11>,
        }
        let outs: Vec<ShardOut> = shards
            .par_iter()
            .map(|&(s0, s1)| {
                let mut o = ShardOut {
                    states: HashSet::new(),
                    hist: 0,
                    adds: 0,
                    finals: 0,
                    finals_split: 0,
                    max_cycles: 0,
                    viol: vec![],
                };
                // DFS over extensions
                let mut stack: Vec<Vec<usize>> = vec![vec![s0, s1]];
                if s1 == 0 {
                    stack.push(vec![s0]); // the length-1 history, once per first symbol
                }
                while let Some(h) = stack.pop() {
                    if o.viol.len() > 4 {
                        break;
                    }
                    let distinct = {
                        let mut t = h.clone();
                        t.sort();
                        t.dedup();
                        t.len() == h.len()
                    };
                    // admissible: no repetition up to maxlen, or any sequence up to replen
                    if !(distinct && h.len() <= maxlen || h.len() <= replen) {
                        continue;
                    }
                    o.hist += 1;
                    o.adds += h.len() as u64;
                    match replay_history(&m, fb.len(), &syms, &h) {
                        Err(p) => o.viol.push(Violation11 {
                            key: format!("modulus={};what=panic;site={}", m.name, p.site),
                            what: format!("history [{}] on n={}: panic {}", h.iter().map(|&i| syms[i].name.clone()).collect::<Vec<_>>().join(","), m.n, p.short()),
                            hist: h.clone(),
                        }),
                        Ok(rs) => {
                            check_state(&m, &rs, &syms, &h, &mut o.viol);
                            o.states.insert(canon(&rs));
                            o.max_cycles = o.max_cycles.max(rs.cycles.len());
                            if rs.cycles.len() >= 2 && (h.len() == maxlen || !distinct) {
                                o.finals += 1;
                                let d = format!("history [{}]", h.iter().map(|&i| syms[i].name.clone()).collect::<Vec<_>>().join(","));
                                if check_final(&m, &fb, &rs.cycles, &d, &h, &mut o.viol) {
                                    o.finals_split += 1;
                                }
                            }
                        }
                    }
                    if h.len() >= 2 {
                        for nx in 0..ns {
                            let mut h2 = h.clone();
                            h2.push(nx);
                            if h2.len() <= maxlen.max(replen) {
                                stack.push(h2);
                            }
                        }
                    }
                }
                o
            })
            .collect();
        let mut states: HashSet<u64> = HashSet::new();
        for o in outs {
            states.extend(o.states);
            total_hist += o.hist;
            total_adds += o.adds;
            finals += o.finals;
            finals_split += o.finals_split;
            max_cycles = max_cycles.max(o.max_cycles);
            for v in o.viol {
                all_viol.lock().unwrap().push((m.name.to_string(), v, names.clone()));
            }
        }
        total_states += states.len() as u64;
        if rep.samples.len() < 6 {
            rep.sample(J::obj(vec![
                ("modulus", J::s(m.name)),
                ("n", J::s(m.n)),
                ("factor_base", J::s(format!("{:?}", fbp))),
                ("alphabet", J::A(names.iter().map(J::s).collect())),
                ("example_history", J::s("P1a,D12,D23,P3a,D13")),
            ]));
        }
        // long chains of double large primes hanging from one partial and closed by another:
        // P(L0), D(L0,L1), ..., D(L[k-1],Lk), P(Lk) for k = 1..9 (cycle lengths up to 11), replayed
        // in a structured set of orders (thorough: EVERY order of the 9 relations of k = 7)
        // The same chains with large primes of the sizes real runs produce (just above 2^23: p^2*q
        // exceeds 64 bits; just above 2^31: p*q needs all 64 bits), up to 3 doubles.
        for (band_start, band_max, band_len) in [(211u64, MAXLARGE, 10usize), ((1 << 23) + 1, 1 << 24, 4), ((1 << 31) + 1, (1 << 32) - 1, 4)] {
            let mut lg: Vec<u64> = vec![];
            let mut c = band_start;
            while lg.len() < band_len && c < band_max {
                if rm::is_prime_u64(c) && m.n % c != 0 && try_make_rel(&m, &fbp, c, 1, false, false, 3000).is_some() {
                    lg.push(c);
                }
                c += 2;
            }
            let kmax = lg.len().saturating_sub(1).min(9);
            for k in 1..=kmax {
                let mut chain: Vec<Sym> = vec![];
                chain.push(Sym { name: format!("P{}", lg[0]), rel: make_rel(&m, &fbp, lg[0], 11, false, false), pq: None });
                let mut ok = true;
                for i in 0..k {
                    match try_make_rel(&m, &fbp, lg[i] * lg[i + 1], 300 + 17 * i as u64, false, i % 3 == 1, 20000) {
                        Some(r) => chain.push(Sym { name: format!("D{}-{}", lg[i], lg[i + 1]), rel: r, pq: Some(if i % 2 == 0 { (lg[i], lg[i + 1]) } else { (lg[i + 1], lg[i]) }) }),
                        None => {
                            ok = false;
                            break;
                        }
                    }
                }
                if !ok {
                    continue;
                }
                chain.push(Sym { name: format!("P{}'", lg[k]), rel: make_rel(&m, &fbp, lg[k], 777, false, false), pq: None });
                let len = chain.len();
                let mut orders: Vec<Vec<usize>> = vec![];
                let seq: Vec<usize> = (0..len).collect();
                for r in 0..len {
                    let mut o = seq.clone();
                    o.rotate_left(r);
                    orders.push(o.clone());
                    o.reverse();
                    orders.push(o);
                }
                // evens then odds, outside-in, inside-out
                orders.push(seq.iter().cloned().filter(|i| i % 2 == 0).chain(seq.iter().cloned().filter(|i| i % 2 == 1)).collect());
                let mut oi = vec![];
                let (mut lo, mut hi) = (0usize, len - 1);
                while lo <= hi {
                    oi.push(lo);
                    if lo != hi {
                        oi.push(hi);
                    }
                    lo += 1;
                    if hi == 0 {
                        break;
                    }
                    hi -= 1;
                }
                orders.push(oi.clone());
                oi.reverse();
                orders.push(oi);
                if !ctx.quick() && k == 7 {
                    // every permutation of the 9 relations
                    let mut perm: Vec<usize> = (0..len).collect();
                    let mut cnt = vec![0usize; len];
                    orders.push(perm.clone());
                    let mut i = 0;
                    while i < len {
                        if cnt[i] < i {
                            if i % 2 == 0 {
                                perm.swap(0, i);
                            } else {
                                perm.swap(cnt[i], i);
                            }
                            orders.push(perm.clone());
                            cnt[i] += 1;
                            i = 0;
                        } else {
                            cnt[i] = 0;
                            i += 1;
                        }
                    }
                }
                let cnames: Vec<String> = chain.iter().map(|s| s.name.clone()).collect();
                let res: Vec<(u64, Vec<Violation11>)> = orders
                    .par_chunks(512)
                    .map(|ch| {
                        let mut viol = vec![];
                        let mut adds = 0;
                        for h in ch {
                            adds += h.len() as u64;
                            match replay_history_ml(&m, fb.len(), &chain, h, band_max) {
                                Err(p) => viol.push(Violation11 {
                                    key: format!("modulus={};what=panic;site={};part=long-chain", m.name, p.site),
                                    what: format!("chain of {} doubles, order {:?} of [{}] on n={}: panic {}", k, h, cnames.join(","), m.n, p.short()),
                                    hist: h.clone(),
                                }),
                                Ok(rs) => {
                                    check_state(&m, &rs, &chain, h, &mut viol);
                                    if rs.cycles.len() != 1 {
                                        viol.push(Violation11 {
                                            key: format!("modulus={};what=chain-not-closed", m.name),
                                            what: format!("chain of {} doubles between two partials, order {:?}: {} relations published (1 expected)", k, h, rs.cycles.len()),
                                            hist: h.clone(),
                                        });
                                    }
                                }
                            }
                            if viol.len() > 2 {
                                break;
                            }
                        }
                        (adds, viol)
                    })
                    .collect();
                total_hist += orders.len() as u64;
                for (a, v) in res {
                    total_adds += a;
                    for x in v.into_iter().take(2) {
                        all_viol.lock().unwrap().push((m.name.to_string(), x, cnames.clone()));
                    }
                }
            }
        }
        // final step on a full-size relation set: fb + 48 distinct complete relations
        {
            let mut rels = vec![];
            for i in 0..(fb.len() + 56) {
                rels.push(make_rel(&m, &fbp, 1, 10_000 + 37 * i as u64, i % 5 == 0, i % 7 == 0));
            }
            finals += 1;
            let mut v = vec![];
            if check_final(&m, &fb, &rels, "hand-built set of fb+56 complete relations", &[], &mut v) {
                finals_split += 1;
            } else if m.pf.len() > 1 || m.pf[0].1 > 1 {
                // not a violation of soundness; reported
                rep.add_count("full_sets_without_split", 1);
            }
            for x in v {
                all_viol.lock().unwrap().push((m.name.to_string(), x, names.clone()));
            }
        }
    }
    // ---- tiny moduli whose prime factors are inside the factor base: relations whose x share
    // factors with n (x = +-y but still a factor; a = b = 0 combinations). All subsets of size
    // <= 4 of 14 such relations, plus the full set, go through final_step.
    let mut tiny_sets = 0u64;
    for (p, q) in [(1009u64, 1013u64), (211, 223), (1009, 1009)] {
        let n = p * q;
        let m = Modulus { name: "tiny(in-base)", n, norig: n, pf: vec![] };
        let fb = FBase::new(Int::from(n as i64), 200);
        let fbp: Vec<u64> = (0..fb.len()).map(|i| fb.p(i) as u64).collect();
        let mut rels: Vec<Relation> = vec![];
        // "entangled" pairs: x = p*k with x^2 = p*s and x = q*j with x^2 = q*s for the same
        // base prime s: dependencies over such relations multiply out to a = b = 0 mod n
        if p != q {
            let mut pairs = 0;
            for &sp in &fbp {
                if sp == p || sp == q || sp == 2 {
                    continue;
                }
                let find = |a: u64, other: u64| (1..other).find(|k| (a * k % other) * k % other == sp);
                if let (Some(k), Some(j)) = (find(p, q), find(q, p)) {
                    for (a, kk) in [(p, k), (q, j)] {
                        let r = Relation { x: Uint::from_digit(a * kk), cofactor: 1, cyclelen: 1, factors: vec![(sp as i64, 1), (a as i64, 1)] };
                        assert!(congruence_holds(&r, n));
                        rels.push(r);
                    }
                    pairs += 1;
                    if pairs == 3 {
                        break;
                    }
                }
            }
        }
        // x multiples of p, of q, and generic x: keep those whose square is smooth
        let mut cands: Vec<u64> = vec![];
        for y in 1..400u64 {
            cands.push(p * y % n);
            cands.push(q * y % n);
            cands.push((n / 2 + y * 17) % n);
        }
        for x in cands {
            if x == 0 {
                continue;
            }
            let mut v = mulmod(x, x, n);
            if v == 0 {
                continue;
            }
            let mut factors: Vec<(i64, u64)> = vec![];
            for &f in &fbp {
                let mut e = 0;
                while v % f == 0 {
                    v /= f;
                    e += 1;
                }
                if e > 0 {
                    factors.push((f as i64, e));
                }
            }
            if v == 1 && !factors.is_empty() {
                let r = Relation { x: Uint::from_digit(x), cofactor: 1, cyclelen: 1, factors };
                if congruence_holds(&r, n) && !rels.iter().any(|o| o.x == r.x) {
                    rels.push(r);
                }
            }
            if rels.len() >= 14 {
                break;
            }
        }
        let k = rels.len();
        let mut v = vec![];
        let mut subsets: Vec<Vec<usize>> = vec![(0..k).collect()];
        for a in 0..k {
            for b in a + 1..k {
                subsets.push(vec![a, b]);
                for c in b + 1..k {
                    subsets.push(vec![a, b, c]);
                    for d in c + 1..k {
                        subsets.push(vec![a, b, c, d]);
                    }
                }
            }
        }
        for sub in subsets {
            let set: Vec<Relation> = sub.iter().map(|&i| rels[i].clone()).collect();
            tiny_sets += 1;
            finals += 1;
            let d = format!("n={}={}*{}, relations with x in {:?}", n, p, q, set.iter().map(|r| r.x.to_string()).collect::<Vec<_>>());
            if check_final(&m, &fb, &set, &d, &[], &mut v) {
                finals_split += 1;
            }
            if v.len() > 3 {
                break;
            }
        }
        for x in v {
            all_viol.lock().unwrap().push((m.name.to_string(), x, vec![]));
        }
    }
    rep.set("tiny_in_base_relation_sets", J::from(tiny_sets));
    rep.states = total_states;
    rep.transitions = total_adds;
    rep.traces = total_hist;
    rep.evaluations = total_hist;
    rep.nontrivial = total_states;
    rep.set("histories", J::from(total_hist));
    rep.set("final_step_calls", J::from(finals));
    rep.set("final_step_calls_returning_divisors", J::from(finals_split));
    rep.set("max_published_relations_in_a_state", J::from(max_cycles));
    for (_m, v, names) in all_viol.into_inner().unwrap().into_iter().take(40) {
        rep.violation(
            v.key,
            v.what,
            J::obj(vec![("history", J::A(v.hist.iter().map(|&i| J::s(&names[i])).collect()))]),
        );
    }
    rep.rule = format!("6 moduli (pq, pqr, p^2, prime, 3pq with multiplier, 7P with a factor in the base); alphabet of 19 genuinely valid relations per modulus built by CRT square roots (4 complete incl. factor 2 and an explicit even sign, 7 single-large-prime incl. an exact duplicate, 8 double-large-prime: chain L1-L2-L3-L4-L5, cycle closer L1-L3, reversed pair, p=q square, isolated pair); ALL sequences without repetition of length <= {} and ALL sequences with repetition of length <= {} are replayed on a fresh real RelationSet (state = history; canonical state hashed for counting only). On every state: every published relation has cofactor 1 and satisfies the congruence (harness u128 arithmetic), its compact form decodes to the same congruence, every pending partial/double is a true congruence with the right cofactor, doubles_rev mirrors doubles; final_step on every maximal state with >= 2 relations, on a full-size set, and on all subsets of size <= 4 (and the full set) of 14 relations of tiny moduli whose prime factors lie inside the factor base (x sharing factors with n): only divisors 1 < d < n, no panic.", maxlen, replen);
    rep.assumptions.push("alphabet relations are valid by construction and re-verified with harness arithmetic".into());
    let _ = relations::MIN_KERNEL_SIZE;
    rep
}
