//! C15: elliptic-curve arithmetic implements the group law.
//! State space = the group: every pair of points of every constructible curve over every
//! small prime field, against the textbook affine (twisted) Edwards law; scalar
//! multiplications against an independent affine double-and-add over larger fields and
//! composite (CRT) moduli; addition chains interpreted symbolically.

use std::sync::Arc;
use std::time::Duration;

use bnum::types::U1024;
use rayon::prelude::*;
use yamaquasi::arith_montgomery::{MInt, ZmodN};
use yamaquasi::ecm::{self, verif_access as ea, Curve, Point, SmoothBase, Suyama11};
use yamaquasi::ecm128::{self, verif_access as e128};
use yamaquasi::Uint;

use crate::common::*;
use crate::refmodel::{self as rm, W};

pub(crate) fn mulmod(a: u64, b: u64, q: u64) -> u64 {
    ((a as u128 * b as u128) % q as u128) as u64
}
fn addmod(a: u64, b: u64, q: u64) -> u64 {
    ((a as u128 + b as u128) % q as u128) as u64
}
fn submod(a: u64, b: u64, q: u64) -> u64 {
    ((a as u128 + q as u128 - (b % q) as u128) % q as u128) as u64
}
pub(crate) fn powmod(mut a: u64, mut e: u64, q: u64) -> u64 {
    let mut r = 1 % q;
    a %= q;
    while e > 0 {
        if e & 1 == 1 {
            r = mulmod(r, a, q);
        }
        a = mulmod(a, a, q);
        e >>= 1;
    }
    r
}
pub(crate) fn invmod(a: u64, q: u64) -> Option<u64> {
    if a % q == 0 {
        None
    } else {
        Some(powmod(a, q - 2, q))
    }
}

/// Reference curve a x^2 + y^2 = 1 + d x^2 y^2 over F_q (a = 1 or q-1).
#[derive(Clone, Copy, Debug)]
pub(crate) struct RefCurve {
    pub q: u64,
    pub a: u64,
    pub d: u64,
}

pub(crate) type Aff = (u64, u64);

impl RefCurve {
    pub fn on_curve(&self, p: Aff) -> bool {
        let q = self.q;
        let (x2, y2) = (mulmod(p.0, p.0, q), mulmod(p.1, p.1, q));
        addmod(mulmod(self.a, x2, q), y2, q) == addmod(1, mulmod(self.d, mulmod(x2, y2, q), q), q)
    }
    /// Affine addition; None when a denominator vanishes (exceptional pair).
    pub fn add(&self, p: Aff, r: Aff) -> Option<Aff> {
        let q = self.q;
        let t = mulmod(self.d, mulmod(mulmod(p.0, r.0, q), mulmod(p.1, r.1, q), q), q);
        let dx = invmod(addmod(1, t, q), q)?;
        let dy = invmod(submod(1, t, q), q)?;
        let x = mulmod(addmod(mulmod(p.0, r.1, q), mulmod(p.1, r.0, q), q), dx, q);
        let y = mulmod(submod(mulmod(p.1, r.1, q), mulmod(self.a, mulmod(p.0, r.0, q), q), q), dy, q);
        Some((x, y))
    }
    pub fn neg(&self, p: Aff) -> Aff {
        ((self.q - p.0) % self.q, p.1)
    }
    /// [k]P by double-and-add with the unified affine law (None on an exceptional step).
    pub fn mul_w(&self, k: &W, p: Aff) -> Option<Aff> {
        let mut res = (0u64, 1u64);
        let mut sq = p;
        for i in 0..k.bits() {
            if k.bit(i) {
                res = self.add(res, sq)?;
            }
            sq = self.add(sq, sq)?;
        }
        Some(res)
    }
}

struct Ctxc<'a> {
    zn: &'a ZmodN,
    pub q: u64,
}

impl<'a> Ctxc<'a> {
    fn m(&self, x: u64) -> MInt {
        self.zn.from_int(Uint::from_digit(x % self.q))
    }
    fn v(&self, x: &MInt) -> u64 {
        self.zn.to_int(*x).digits()[0]
    }
    fn point(&self, p: Aff, z: u64) -> Point {
        ea::point_new(self.m(mulmod(p.0, z, self.q)), self.m(mulmod(p.1, z, self.q)), self.m(z))
    }
    /// Affine coordinates of a projective point (None if Z = 0).
    fn affine(&self, p: &Point) -> Option<Aff> {
        let (x, y, z) = ea::point_xyz(p);
        let zi = invmod(self.v(&z), self.q)?;
        Some((mulmod(self.v(&x), zi, self.q), mulmod(self.v(&y), zi, self.q)))
    }
    fn affine_ext(&self, p: &ecm::ExtPoint) -> Option<(Aff, bool)> {
        let (x, y, z, t) = ea::extpoint_xyzt(p);
        let (xv, yv, zv, tv) = (self.v(&x), self.v(&y), self.v(&z), self.v(&t));
        let zi = invmod(zv, self.q)?;
        // on the quadric XY = ZT ?
        let quadric = mulmod(xv, yv, self.q) == mulmod(zv, tv, self.q);
        Some(((mulmod(xv, zi, self.q), mulmod(yv, zi, self.q)), quadric))
    }
}

struct Tally {
    points: u64,
    pairs: u64,
    exceptional: u64,
    evals: u64,
    bad: Vec<(String, String)>,
}

impl Tally {
    fn new() -> Tally {
        Tally {
            points: 0,
            pairs: 0,
            exceptional: 0,
            evals: 0,
            bad: vec![],
        }
    }
    fn fail(&mut self, op: &str, what: String) {
        if self.bad.len() < 6 {
            self.bad.push((format!("op={}", op), what));
        }
    }
}

/// All pairs of points of one curve over F_q.
fn group_check(c: &Curve, zn: &ZmodN, q: u64, family: &str, t: &mut Tally) {
    let (a, d) = c.a_d();
    let rc = RefCurve {
        q,
        a: if a == 1 { 1 } else { q - 1 },
        d: (rm::w_from(&d) % W::from_digit(q)).digits()[0],
    };
    if rc.d == 0 || rc.d == rc.a {
        return; // singular: not a curve
    }
    let cx = Ctxc { zn, q };
    let twisted = ea::is_twisted(c);
    // all affine points
    let mut pts: Vec<Aff> = vec![];
    for x in 0..q {
        for y in 0..q {
            if rc.on_curve((x, y)) {
                pts.push((x, y));
            }
        }
    }
    t.points += pts.len() as u64;
    let desc = |p: Aff, r: Aff| format!("{} curve a={} d={} over F_{}: P=({},{}) Q=({},{})", family, a, rc.d, q, p.0, p.1, r.0, r.1);
    // the generator must be on the curve
    if let Some(g) = cx.affine(c.gen()) {
        if !rc.on_curve(g) {
            t.fail("generator", format!("{} curve over F_{}: generator ({},{}) is not on a x^2+y^2=1+d x^2 y^2 with a={} d={}", family, q, g.0, g.1, a, rc.d));
            return;
        }
    }
    // 128-bit implementation (twisted curves only): same generator, R = 2^64
    let c128 = if twisted {
        let r64 = |x: u64| -> u128 { ((x as u128) << 64) % q as u128 };
        let g = cx.affine(c.gen());
        g.map(|g| ecm128::Curve::from_point(q as u128, e128::point_from_raw(r64(g.0), r64(g.1), r64(1))))
    } else {
        None
    };
    let from128 = |raw: (u128, u128, u128)| -> Option<Aff> {
        // raw Montgomery residues with R = 2^64
        let rinv = invmod(((1u128 << 64) % q as u128) as u64, q)?;
        let f = |x: u128| mulmod((x % q as u128) as u64, rinv, q);
        let zi = invmod(f(raw.2), q)?;
        Some((mulmod(f(raw.0), zi, q), mulmod(f(raw.1), zi, q)))
    };
    let to128 = |p: Aff, z: u64| -> ecm128::Point {
        let r64 = |x: u64| -> u128 { ((x as u128) << 64) % q as u128 };
        e128::point_from_raw(r64(mulmod(p.0, z, q)), r64(mulmod(p.1, z, q)), r64(z))
    };
    for (i, &p) in pts.iter().enumerate() {
        let z1 = 1 + (i as u64 % 3); // vary the projective representative
        let pp = cx.point(p, z1 % q.max(2));
        let pe = ea::to_extended(c, &pp);
        t.evals += 3;
        // to_extended: same point, on the quadric
        match cx.affine_ext(&pe) {
            Some((ap, quad)) => {
                if ap != p || !quad {
                    t.fail("to_extended", format!("{}: to_extended(P) represents ({},{}) quadric={}", desc(p, p), ap.0, ap.1, quad));
                }
            }
            None => t.fail("to_extended", format!("{}: to_extended(P) has Z = 0", desc(p, p))),
        }
        if !ea::is_valid(c, &pp) {
            t.fail("is_valid", format!("{}: is_valid rejects a curve point", desc(p, p)));
        }
        // doubling
        let want2 = rc.add(p, p);
        let generic2 = p.0 != 0 && p.1 != 0;
        for (name, got) in [("double", cx.affine(&ea::double(c, &pp))), ("dblext", cx.affine_ext(&ea::dblext(c, &pp)).map(|x| x.0))] {
            match (want2, got) {
                (Some(w), Some(g)) => {
                    if w != g {
                        t.fail(name, format!("{}: {}(P) = ({},{}) expected ({},{})", desc(p, p), name, g.0, g.1, w.0, w.1));
                    }
                }
                (Some(w), None) => {
                    if generic2 && w.0 != 0 && w.1 != 0 {
                        t.fail(name, format!("{}: {}(P) degenerate (Z=0) for a generic point", desc(p, p), name));
                    }
                }
                _ => {}
            }
        }
        if let Some(c128) = &c128 {
            let p128 = to128(p, z1 % q.max(2));
            for (name, got) in [
                ("ecm128::double", from128(e128::point_raw(&e128::double(c128, &p128)))),
                ("ecm128::dblext", {
                    let e = e128::extpoint_raw(&e128::dblext(c128, &p128));
                    from128((e.0, e.1, e.2))
                }),
            ] {
                t.evals += 1;
                match (want2, got) {
                    (Some(w), Some(g)) => {
                        if w != g {
                            t.fail(name, format!("{}: {}(P) = ({},{}) expected ({},{})", desc(p, p), name, g.0, g.1, w.0, w.1));
                        }
                    }
                    (Some(w), None) => {
                        if generic2 && w.0 != 0 && w.1 != 0 {
                            t.fail(name, format!("{}: {}(P) degenerate for a generic point", desc(p, p), name));
                        }
                    }
                    _ => {}
                }
            }
        }
        for (j, &r) in pts.iter().enumerate() {
            t.pairs += 1;
            let z2 = 1 + (j as u64 % 2);
            let rp = cx.point(r, z2 % q.max(2));
            let re = ea::to_extended(c, &rp);
            let want = rc.add(p, r);
            let wantsub = rc.add(p, rc.neg(r));
            if want.is_none() {
                t.exceptional += 1;
            }
            // generic pair: P != +-Q and all of P, Q, P+Q, P-Q have non-zero coordinates
            let nz = |x: Option<Aff>| matches!(x, Some(v) if v.0 != 0 && v.1 != 0);
            let generic = p != r && p != rc.neg(r) && nz(Some(p)) && nz(Some(r)) && nz(want) && nz(wantsub);
            t.evals += 5;
            // unified projective addition: right whenever the affine law is defined
            let got = cx.affine(&ea::add(c, &pp, &rp));
            match (want, got) {
                (Some(w), Some(g)) => {
                    if w != g {
                        t.fail("add", format!("{}: add = ({},{}) expected ({},{})", desc(p, r), g.0, g.1, w.0, w.1));
                    }
                }
                (Some(_), None) => t.fail("add", format!("{}: add degenerate (Z=0) although the affine law is defined", desc(p, r))),
                _ => {}
            }
            if let (Some(w), Some(g)) = (wantsub, cx.affine(&ea::sub(c, &pp, &rp))) {
                if w != g {
                    t.fail("sub", format!("{}: sub = ({},{}) expected ({},{})", desc(p, r), g.0, g.1, w.0, w.1));
                }
            }
            // non-unified extended formulas: must be right on generic pairs, and right whenever
            // they do not degenerate
            let ext = ea::addext(c, &pe, &re);
            let checks: [(&str, Option<Aff>, Option<Aff>); 3] = [
                ("addext", want, cx.affine_ext(&ext).map(|x| x.0)),
                ("addextproj", want, cx.affine(&ea::addextproj(c, &pe, &re))),
                ("subextproj", wantsub, cx.affine(&ea::subextproj(c, &pe, &re))),
            ];
            for (name, w, g) in checks {
                match (w, g) {
                    (Some(w), Some(g)) => {
                        if w != g && p != r && p != rc.neg(r) {
                            t.fail(name, format!("{}: {} = ({},{}) expected ({},{})", desc(p, r), name, g.0, g.1, w.0, w.1));
                        }
                    }
                    (Some(_), None) => {
                        if generic {
                            t.fail(name, format!("{}: {} degenerate (Z=0) on a generic pair", desc(p, r), name));
                        }
                    }
                    _ => {}
                }
            }
            if generic {
                if let Some((_, quad)) = cx.affine_ext(&ext) {
                    if !quad {
                        t.fail("addext", format!("{}: addext result is off the quadric XY=ZT", desc(p, r)));
                    }
                }
            }
            if let Some(c128) = &c128 {
                t.evals += 2;
                let p128 = to128(p, z1 % q.max(2));
                let r128 = to128(r, z2 % q.max(2));
                let (pe128, re128) = (c128.ext(&p128), c128.ext(&r128));
                let s = e128::extpoint_raw(&e128::add(c128, &pe128, &re128));
                match (want, from128((s.0, s.1, s.2))) {
                    (Some(w), Some(g)) => {
                        if w != g && p != r && p != rc.neg(r) {
                            t.fail("ecm128::add", format!("{}: ecm128 add = ({},{}) expected ({},{})", desc(p, r), g.0, g.1, w.0, w.1));
                        }
                    }
                    (Some(_), None) => {
                        if generic {
                            t.fail("ecm128::add", format!("{}: ecm128 add degenerate on a generic pair", desc(p, r)));
                        }
                    }
                    _ => {}
                }
                // dbladd(P, Q) = 2P + Q
                if let Some(p2) = want2 {
                    let w2 = rc.add(p2, r);
                    let g2 = from128(e128::point_raw(&e128::dbladd(c128, &p128, &re128)));
                    if let (Some(w), Some(g)) = (w2, g2) {
                        if w != g && p2 != r && p2 != rc.neg(r) {
                            t.fail("ecm128::dbladd", format!("{}: dbladd = ({},{}) expected 2P+Q = ({},{})", desc(p, r), g.0, g.1, w.0, w.1));
                        }
                    }
                }
            }
            if t.bad.len() >= 6 {
                return;
            }
        }
    }
}

fn small_field_curves(q: u64, with_suyama: bool) -> Tally {
    let mut t = Tally::new();
    let r = guarded(|| {
        let zn = ZmodN::new(Uint::from_digit(q));
        for x in 2..=5u64 {
            for y in 2..=5u64 {
                if let Ok(c) = Curve::from_point(zn.clone(), x, y) {
                    group_check(&c, &zn, q, "from_point", &mut t);
                }
            }
        }
        if with_suyama && q % 3 != 0 {
            if let Ok(su) = Suyama11::new(&zn) {
                for seed in 2..=40u32 {
                    let c = su.element(seed).and_then(|p| su.params_point(&p)).and_then(|g| Curve::twisted_from_point(zn.clone(), g));
                    match c {
                        Ok(c) => group_check(&c, &zn, q, "suyama11", &mut t),
                        Err(_) => t.exceptional += 1,
                    }
                }
            }
        }
    });
    if let Err(p) = r {
        t.bad.push((format!("op=panic;site={}", p.site), format!("curves over F_{}: panic {}", q, p.short())));
    }
    t
}

// ------------------------------------------------------------ scalar multiplication

fn eval_chain(c: &[i8]) -> Option<W> {
    // reversed opcode list: last element is the initial odd multiple
    let l = c.len();
    if l == 0 {
        return None;
    }
    let first = c[l - 1];
    if l == 1 && first == 0 {
        return Some(W::ZERO);
    }
    if first <= 0 || first % 2 == 0 {
        return None;
    }
    let mut v = W::from_digit(first as u64);
    for idx in 1..l {
        let op = c[l - 1 - idx];
        if op % 2 == 0 {
            if op < 0 {
                return None;
            }
            v = v << (op as u32 / 2);
        } else if op > 0 {
            v = (v << 1) + W::from_digit(op as u64);
        } else {
            let s = W::from_digit((-(op as i64)) as u64);
            let d = v << 1;
            if d < s {
                return None;
            }
            v = d - s;
        }
    }
    Some(v)
}

fn scalars64(quick: bool) -> Vec<u64> {
    let mut v: Vec<u64> = (0..=if quick { 2048 } else { 4096 }).collect();
    for i in 0..64 {
        v.push(1 << i);
        v.push((1u64 << i).wrapping_add(1));
        v.push((1u64 << i).wrapping_sub(1));
        v.push(u64::MAX >> i);
        v.push(0xAAAA_AAAA_AAAA_AAAA >> i);
        v.push(0x8888_8888_8888_8888u64 >> i);
    }
    for d in 0..64u64 {
        v.push(u64::MAX - d);
    }
    for b1 in [16usize, 40, 50, 60, 100, 180, 200, 600, 2000, 10_000] {
        let (f, _) = ea::smoothbase_blocks(&SmoothBase::new(b1, false));
        v.extend(f);
    }
    v.sort();
    v.dedup();
    v
}

/// Nibble words (symbolic chain check only; a small selection also goes through the real
/// multiplications): the chain builder consumes 4 bits per pair of opcodes, so words made of
/// odd nibbles are its longest chains.
fn nibble_words(quick: bool) -> (Vec<u64>, Vec<u64>) {
    let mut v: Vec<u64> = vec![];
    let mut sel: Vec<u64> = vec![];
    // EVERY 16-nibble word over {1, 9}; every word whose 8
    // top nibbles range over {1, 7, 9, F} above a constant tail of 1s or 9s; every top nibble
    // above fifteen equal odd nibbles; thorough: every word over {1, 9, F}.
    for code in 0..1u64 << 16 {
        let mut k = 0u64;
        for i in 0..16 {
            k |= (if (code >> i) & 1 == 1 { 9 } else { 1 }) << (4 * i);
        }
        v.push(k);
    }
    for tail in [0x1111_1111u64, 0x9999_9999, 0x7777_7777, 0xFFFF_FFFF] {
        for code in 0..1u64 << 16 {
            let mut k = tail;
            for i in 0..8 {
                let nib = [1u64, 7, 9, 15][((code >> (2 * i)) & 3) as usize];
                k |= nib << (32 + 4 * i);
            }
            v.push(k);
        }
    }
    for top in 0..16u64 {
        for low in [1u64, 3, 5, 7, 9, 11, 13, 15] {
            let mut k = top << 60;
            for i in 0..15 {
                k |= low << (4 * i);
            }
            v.push(k);
            sel.push(k);
        }
    }
    if !quick {
        let mut code = vec![0u8; 16];
        loop {
            let mut k = 0u64;
            for i in 0..16 {
                k |= [1u64, 9, 15][code[i] as usize] << (4 * i);
            }
            v.push(k);
            let mut i = 0;
            while i < 16 {
                code[i] += 1;
                if code[i] < 3 {
                    break;
                }
                code[i] = 0;
                i += 1;
            }
            if i == 16 {
                break;
            }
        }
    }
    (v, sel)
}

fn scalars1024(quick: bool) -> Vec<W> {
    let mut v: Vec<W> = vec![W::ZERO, W::ONE, W::TWO];
    for i in 0..1024u32 {
        let p = W::ONE << i;
        v.push(p);
        v.push(p + W::ONE);
        if i > 0 {
            v.push(p - W::ONE);
        }
    }
    v.push((W::ONE << 1024) - W::ONE);
    // sparse shapes 2^i + c*2^j with a gap of 30..70 bits below the top word, and word patterns
    for i in (64..1024u32).step_by(if quick { 61 } else { 13 }) {
        for gap in [30u32, 38, 40, 41, 44, 50, 54, 60, 63, 64, 65, 70] {
            if i > gap {
                for c in [1u64, 3, 5] {
                    v.push((W::ONE << i) + (W::from_digit(c) << (i - gap)));
                    if i - gap > 10 {
                        v.push((W::ONE << i) + (W::from_digit(c) << 10));
                    }
                }
            }
        }
    }
    let w4 = [0u64, 1, 1 << 63, u64::MAX];
    for pos in 0..16 {
        for &a in &w4 {
            for &b in &w4 {
                let mut d = [0u64; 40];
                for (k, w) in d.iter_mut().enumerate().take(16) {
                    *w = if k == pos { a } else { b };
                }
                v.push(W::from_digits(d));
            }
        }
    }
    for b1 in [10_000usize, 100_000] {
        let (_, lg) = ea::smoothbase_blocks(&SmoothBase::new(b1, true));
        for x in lg {
            v.push(rm::w_from(&x));
        }
    }
    v.retain(|x| x.bits() <= 1024);
    v.sort();
    v.dedup();
    v
}

/// Compare the library's scalar multiplications with the reference on a modulus that is a
/// product of distinct primes (componentwise by CRT).
fn scalar_check(primes: &[u64], x0: u64, y0: u64, twisted_seed: Option<u32>, ks64: &[u64], ks1024: &[W], t: &mut Tally) {
    let n = primes.iter().fold(W::ONE, |a, &p| a * W::from_digit(p));
    let nu: Uint = rm::w_to(&n);
    let zn = ZmodN::new(nu);
    let c = match twisted_seed {
        None => match Curve::from_point(zn.clone(), x0, y0) {
            Ok(c) => c,
            Err(_) => return,
        },
        Some(seed) => {
            let su = match Suyama11::new(&zn) {
                Ok(s) => s,
                Err(_) => return,
            };
            match su.element(seed).and_then(|p| su.params_point(&p)).and_then(|g| Curve::twisted_from_point(zn.clone(), g)) {
                Ok(c) => c,
                Err(_) => return,
            }
        }
    };
    let (a, d) = c.a_d();
    let g = c.gen().clone();
    let (gx, gy, gz) = ea::point_xyz(&g);
    let coord = |m: &MInt, q: u64| -> u64 { (rm::w_from(&zn.to_int(*m)) % W::from_digit(q)).digits()[0] };
    // per-prime reference data
    let mut refs: Vec<(RefCurve, Aff)> = vec![];
    for &q in primes {
        let rc = RefCurve {
            q,
            a: if a == 1 { 1 } else { q - 1 },
            d: (rm::w_from(&d) % W::from_digit(q)).digits()[0],
        };
        let zi = match invmod(coord(&gz, q), q) {
            Some(z) => z,
            None => return,
        };
        let gaff = (mulmod(coord(&gx, q), zi, q), mulmod(coord(&gy, q), zi, q));
        if !rc.on_curve(gaff) {
            t.fail("generator", format!("generator not on the curve modulo {}", q));
            return;
        }
        refs.push((rc, gaff));
    }
    let desc = format!("{} curve a={} over n={} ({} words)", if twisted_seed.is_some() { "suyama11" } else { "from_point" }, a, n, zn.words());
    let compare = |name: &str, k: &W, got: &Point, t: &mut Tally| {
        let (x, y, z) = ea::point_xyz(got);
        for (rc, gaff) in &refs {
            let q = rc.q;
            let Some(want) = rc.mul_w(k, *gaff) else { continue };
            let zv = coord(&z, q);
            match invmod(zv, q) {
                None => {
                    // degenerate modulo q: legitimate only if the chain met an exceptional
                    // addition, which requires a small-order coincidence: report it
                    t.exceptional += 1;
                    if rc.q > (1 << 30) {
                        t.fail(name, format!("{}: {}([{}]G) is degenerate modulo {}", desc, name, k, q));
                    }
                }
                Some(zi) => {
                    let ga = (mulmod(coord(&x, q), zi, q), mulmod(coord(&y, q), zi, q));
                    if ga != want {
                        t.fail(name, format!("{}: {}([{}]G) = ({},{}) mod {} expected ({},{})", desc, name, k, ga.0, ga.1, q, want.0, want.1));
                    }
                }
            }
        }
    };
    for &k in ks64 {
        let kw = W::from_digit(k);
        t.evals += 2;
        match guarded(|| c.scalar64_chainmul(k, &g)) {
            Ok(p) => compare("scalar64_chainmul", &kw, &p, t),
            Err(e) => t.bad.push((format!("op=scalar64_chainmul;what=panic;site={}", e.site), format!("{}: scalar64_chainmul({}) panicked: {}", desc, k, e.short()))),
        }
        let p = c.scalar64_mul_dbladd(k, &g);
        compare("scalar64_mul_dbladd", &kw, &p, t);
        if t.bad.len() >= 6 {
            return;
        }
    }
    for k in ks1024 {
        t.evals += 1;
        let ku: U1024 = rm::w_to(k);
        match guarded(|| c.scalar1024_chainmul(&ku, &g)) {
            Ok(p) => compare("scalar1024_chainmul", k, &p, t),
            Err(e) => t.bad.push((format!("op=scalar1024_chainmul;what=panic;site={}", e.site), format!("{}: scalar1024_chainmul({}) panicked: {}", desc, k, e.short()))),
        }
        if t.bad.len() >= 6 {
            return;
        }
    }
    // ecm128 on 1- and 2-word twisted curves
    if twisted_seed.is_some() && n.bits() <= 128 {
        let n128 = u128::from_str_radix(&n.to_string(), 10).unwrap();
        let big = n.bits() > 64;
        let rr: W = if big { W::ONE << 128 } else { W::ONE << 64 };
        let tor = |m: &MInt| -> u128 { u128::from_str_radix(&((rm::w_from(&zn.to_int(*m)) * rr) % n).to_string(), 10).unwrap() };
        let c128 = ecm128::Curve::from_point(n128, e128::point_from_raw(tor(&gx), tor(&gy), tor(&gz)));
        let rinv = {
            // R^-1 mod n via Fermat is not available for composite n: use the extended Euclid of bnum types
            let ni: Uint = rm::w_to(&n);
            let r: Uint = rm::w_to(&(rr % n));
            yamaquasi::arith_gcd::inv_mod(&r, &ni).ok().map(|x| rm::w_from(&x))
        };
        if let Some(rinv) = rinv {
            for &k in ks64 {
                t.evals += 1;
                let res = guarded(|| e128::point_raw(&c128.scalar64_mul(k, c128.gen())));
                match res {
                    Err(e) => t.bad.push((format!("op=ecm128::scalar64_mul;what=panic;site={}", e.site), format!("{}: ecm128 scalar64_mul({}) panicked: {}", desc, k, e.short()))),
                    Ok(raw) => {
                        if k == 0 {
                            continue; // the 128-bit routine has no representation of k = 0 (never called with it)
                        }
                        let f = |x: u128| -> MInt { zn.from_int(rm::w_to(&((W::from_str_radix(&x.to_string(), 10).unwrap() * rinv) % n))) };
                        let p = ea::point_new(f(raw.0), f(raw.1), f(raw.2));
                        compare("ecm128::scalar64_mul", &W::from_digit(k), &p, t);
                    }
                }
                if t.bad.len() >= 6 {
                    return;
                }
            }
        }
    }
}

pub fn run(ctx: &Ctx) -> Report {
    let mut rep = Report::new("model_checking");
    // ---- (1) the group as state space: all pairs of points over small prime fields
    let qmax = ctx.pick(131u64, 331);
    let qs: Vec<u64> = rm::primes_below(qmax + 1).into_iter().filter(|&q| q >= 7).collect();
    // Suyama11::new calls from_int(10582) which trips a debug assertion (x < n) for moduli below
    // 10582 -- moduli the library never builds a Suyama family for (after trial division a
    // composite is at least 211^2): the family is enumerated over small fields in the
    // optimised profile only.
    let suyama_small = PROFILE == "rel";
    let tallies: Vec<Tally> = qs.par_iter().map(|&q| small_field_curves(q, q >= 101 && suyama_small)).collect();
    let mut exceptional = 0;
    for t in tallies {
        rep.states += t.points;
        rep.transitions += t.pairs;
        rep.evaluations += t.evals;
        exceptional += t.exceptional;
        for (k, w) in t.bad.into_iter().take(3) {
            rep.violation(k, w.clone(), J::obj(vec![("case", J::s(w))]));
        }
    }
    // ---- (2) addition chains, interpreted symbolically (watchdog: a chain builder that loops is a violation)
    let ks64 = Arc::new(scalars64(ctx.quick()));
    let ks1024 = Arc::new(scalars1024(ctx.quick()));
    {
        let k2 = ks64.clone();
        let f: Arc<dyn Fn(usize) -> Option<(String, String)> + Send + Sync> = Arc::new(move |i| {
            let k = k2[i];
            match guarded(|| ea::addition_chain(k)) {
                Err(e) => Some((format!("op=addition_chain;what=panic;site={}", e.site), format!("make_addition_chain({}) panicked: {}", k, e.short()))),
                Ok(c) => {
                    let v = eval_chain(&c);
                    let ok_ops = c.iter().all(|&op| if op % 2 == 0 { op >= 0 } else { op.abs() <= 7 });
                    if v != Some(W::from_digit(k)) || c.len() > 32 || !ok_ops {
                        Some(("op=addition_chain;what=wrong".into(), format!("make_addition_chain({}) = {:?} evaluates to {:?}", k, c, v)))
                    } else {
                        None
                    }
                }
            }
        });
        match run_watched(ks64.len(), 8, Duration::from_secs(10), f) {
            Err(i) => rep.violation("op=addition_chain;what=no-termination".into(), format!("make_addition_chain({}) did not return within 10 s", ks64[i]), J::obj(vec![("k", J::s(ks64[i]))])),
            Ok(res) => {
                for (k, w) in res.into_iter().flatten().flatten().take(8) {
                    rep.violation(k, w.clone(), J::obj(vec![("case", J::s(w))]));
                }
            }
        }
        rep.evaluations += ks64.len() as u64;
    }
    let (nib_all, nib_sel) = nibble_words(ctx.quick());
    {
        // nibble words: symbolic check of every word (no watchdog: the base list has one)
        let bad: Vec<(String, String)> = nib_all
            .par_chunks(4096)
            .flat_map(|ch| {
                let mut out = vec![];
                for &k in ch {
                    match guarded(|| ea::addition_chain(k)) {
                        Err(e) => out.push((format!("op=addition_chain;what=panic;site={}", e.site), format!("make_addition_chain({:#x}) panicked: {}", k, e.short()))),
                        Ok(c) => {
                            let v = eval_chain(&c);
                            let ok_ops = c.iter().all(|&op| if op % 2 == 0 { op >= 0 } else { op.abs() <= 7 });
                            if v != Some(W::from_digit(k)) || c.len() > 32 || !ok_ops {
                                out.push(("op=addition_chain;what=wrong".into(), format!("make_addition_chain({:#x}) = {:?} evaluates to {:?}", k, c, v)));
                            }
                        }
                    }
                    if out.len() > 4 {
                        break;
                    }
                }
                out
            })
            .collect();
        let nbad = bad.len();
        for (k, w) in bad.into_iter().take(4) {
            rep.violation(k, format!("{w} [{nbad} or more nibble words fail]"), J::obj(vec![("case", J::s(w))]));
        }
        rep.evaluations += nib_all.len() as u64;
        rep.set("nibble_words", J::from(nib_all.len()));
    }
    {
        // long chains: the listed 1024-bit scalars plus ALL 2^i + 2^j (and 3*, 5* low parts)
        let mut all: Vec<W> = (*ks1024).clone();
        let step = ctx.pick(3u32, 1);
        for i in (1..1024u32).step_by(step as usize) {
            for j in 0..i {
                all.push((W::ONE << i) + (W::ONE << j));
                if j % 4 == 0 && i > j + 3 {
                    all.push((W::ONE << i) + (W::from_digit(5) << j));
                }
            }
        }
        let bad: Vec<(String, String)> = all
            .par_iter()
            .filter_map(|k| {
                let ku: U1024 = rm::w_to(k);
                if k.is_zero() {
                    return None;
                }
                match guarded(|| ea::addition_chain_long(&ku)) {
                    Err(e) => Some((format!("op=addition_chain_long;what=panic;site={}", e.site), format!("make_addition_chain_long({}) panicked: {}", k, e.short()))),
                    Ok(c) => {
                        let v = eval_chain(&c);
                        let ok_ops = c.iter().all(|&op| if op % 2 == 0 { op >= 0 } else { op.abs() <= 63 });
                        if v != Some(*k) || c.len() > 384 || !ok_ops {
                            Some(("op=addition_chain_long;what=wrong".into(), format!("make_addition_chain_long({}) ({} bits) evaluates to {:?}", k, k.bits(), v)))
                        } else {
                            None
                        }
                    }
                }
            })
            .collect();
        rep.evaluations += all.len() as u64;
        rep.set("long_chains_interpreted", J::from(all.len()));
        for (k, w) in bad.into_iter().take(8) {
            rep.violation(k, w.clone(), J::obj(vec![("case", J::s(w))]));
        }
    }
    // ---- (3) scalar multiplications on prime and composite moduli of 1..8 words
    let big_primes: Vec<u64> = {
        let mut v = vec![];
        let mut p = (1u64 << 61) + 1;
        while v.len() < 8 {
            p = rm::next_prime_u64(p + 2);
            if p % 3 != 0 {
                v.push(p);
            }
        }
        v
    };
    let p31 = rm::next_prime_u64(1 << 31);
    let mut moduli: Vec<Vec<u64>> = vec![vec![p31], vec![big_primes[0]], vec![big_primes[0], big_primes[1]]];
    for w in [3usize, 4, 6, 8] {
        moduli.push(big_primes[..w].to_vec());
    }
    // 128-bit moduli with the top bit set (sums of residues exceed 2^128) and a 64-bit prime
    let top = [rm::prev_prime_u64(u64::MAX), rm::prev_prime_u64(rm::prev_prime_u64(u64::MAX) - 1), rm::prev_prime_u64(u64::MAX - 200)];
    moduli.push(vec![top[0], top[1]]);
    moduli.push(vec![top[1], top[2]]);
    moduli.push(vec![top[0]]);
    let jobs: Vec<(usize, Option<u32>)> = (0..moduli.len()).flat_map(|i| [(i, None), (i, Some(2u32)), (i, Some(7))]).collect();
    let sub1024: Arc<Vec<W>> = Arc::new(if ctx.quick() { ks1024.iter().step_by(7).cloned().collect() } else { (*ks1024).clone() });
    let sub64: Arc<Vec<u64>> = Arc::new(if ctx.quick() { ks64.iter().step_by(3).cloned().chain(ks64.iter().rev().take(80).cloned()).chain(nib_sel.iter().cloned()).collect() } else { ks64.iter().cloned().chain(nib_sel.iter().cloned()).collect() });
    let ts: Vec<Tally> = jobs
        .par_iter()
        .map(|&(i, seed)| {
            let mut t = Tally::new();
            let r = guarded(|| scalar_check(&moduli[i], 3, 5, seed, &sub64, &sub1024, &mut t));
            if let Err(p) = r {
                t.bad.push((format!("op=scalar;what=panic;site={}", p.site), format!("scalar multiplications on a {}-prime modulus: panic {}", moduli[i].len(), p.short())));
            }
            t
        })
        .collect();
    for t in ts {
        rep.evaluations += t.evals;
        exceptional += t.exceptional;
        for (k, w) in t.bad.into_iter().take(3) {
            rep.violation(k, w.clone(), J::obj(vec![("case", J::s(w))]));
        }
    }
    rep.traces = rep.transitions;
    rep.nontrivial = rep.transitions;
    rep.set("exceptional_pairs_or_constructions", J::from(exceptional));
    rep.set("prime_fields", J::from(qs.len()));
    rep.set("scalars_64", J::from(ks64.len()));
    rep.set("scalars_1024", J::from(ks1024.len()));
    rep.sample(J::obj(vec![("field", J::s("F_101")), ("curve", J::s("Curve::from_point(3,4) and Suyama11 seeds 2..40")), ("pairs", J::s("all (P,Q)"))]));
    rep.sample(J::obj(vec![("scalar64", J::s(u64::MAX)), ("routines", J::s("scalar64_chainmul, scalar64_mul_dbladd, ecm128::scalar64_mul"))]));
    rep.sample(J::obj(vec![("scalar1024", J::s("2^74 + 2^20")), ("routine", J::s("make_addition_chain_long (symbolic) / scalar1024_chainmul"))]));
    rep.rule = format!("(1) for every prime field F_q, 7 <= q <= {}: every curve Curve::from_point(x,y), (x,y) in [2,5]^2, and (q >= 101) every constructible Suyama-11 curve for seeds 2..40; ALL affine points enumerated by brute force (states) and ALL pairs (P,Q) (transitions), with varying projective representatives: add, sub (unified: right whenever the affine law is defined), double, dblext, to_extended (same point, on the quadric), is_valid, addext/addextproj/subextproj (right on every generic pair and whenever they do not degenerate), and for twisted curves the 128-bit implementation (add, dbladd, double, dblext) against the textbook affine law with explicit inversion; (2) addition chains interpreted symbolically: every listed 64-bit scalar (0..2048/4096, 2^i, 2^i+-1, all-ones, patterns, the 64 largest values, EVERY 16-nibble word over the alphabet 1,9 (thorough: 1,9,F), every word with the 8 top nibbles over 1,7,9,F above four constant tails, every top nibble above 15 equal odd nibbles, every smoothness-base block of the strategy B1 values) and every listed 1024-bit scalar plus ALL 2^i+2^j (quick: every third i): the opcode list must evaluate to k and fit its buffer, under a watchdog; (3) scalar64_chainmul, scalar64_mul_dbladd, ecm128::scalar64_mul and scalar1024_chainmul on prime and composite (CRT, 1,2,3,4,6,8 words) moduli for both curve families against an independent affine double-and-add.", qmax);
    rep.assumptions.push("reference: affine (twisted) Edwards law over F_q with u128 arithmetic; composite moduli checked componentwise".into());
    rep
}
