//! Shared machinery: JSON writer, evidence reports, violation bookkeeping,
//! known-findings matcher, panic capture.

use std::cell::RefCell;
use std::collections::BTreeMap;
use std::fmt::Write as _;
use std::path::PathBuf;
use std::sync::Mutex;

// ---------------------------------------------------------------- JSON

#[derive(Clone, Debug)]
pub enum J {
    Null,
    B(bool),
    I(i128),
    F(f64),
    S(String),
    A(Vec<J>),
    O(Vec<(String, J)>),
}

impl J {
    pub fn s<T: ToString>(x: T) -> J {
        J::S(x.to_string())
    }
    pub fn obj(kv: Vec<(&str, J)>) -> J {
        J::O(kv.into_iter().map(|(k, v)| (k.to_string(), v)).collect())
    }
    pub fn render(&self) -> String {
        let mut s = String::new();
        self.write(&mut s);
        s
    }
    fn write(&self, out: &mut String) {
        match self {
            J::Null => out.push_str("null"),
            J::B(b) => out.push_str(if *b { "true" } else { "false" }),
            J::I(i) => {
                let _ = write!(out, "{}", i);
            }
            J::F(f) => {
                if f.is_finite() {
                    let _ = write!(out, "{:.3}", f);
                } else {
                    out.push_str("0");
                }
            }
            J::S(s) => {
                out.push('"');
                for c in s.chars() {
                    match c {
                        '"' => out.push_str("\\\""),
                        '\\' => out.push_str("\\\\"),
                        '\n' => out.push_str("\\n"),
                        '\r' => out.push_str("\\r"),
                        '\t' => out.push_str("\\t"),
                        c if (c as u32) < 0x20 => {
                            let _ = write!(out, "\\u{:04x}", c as u32);
                        }
                        c => out.push(c),
                    }
                }
                out.push('"');
            }
            J::A(v) => {
                out.push('[');
                for (i, x) in v.iter().enumerate() {
                    if i > 0 {
                        out.push(',');
                    }
                    x.write(out);
                }
                out.push(']');
            }
            J::O(v) => {
                out.push('{');
                for (i, (k, x)) in v.iter().enumerate() {
                    if i > 0 {
                        out.push(',');
                    }
                    J::S(k.clone()).write(out);
                    out.push(':');
                    x.write(out);
                }
                out.push('}');
            }
        }
    }
}

impl From<u64> for J {
    fn from(x: u64) -> J {
        J::I(x as i128)
    }
}
impl From<usize> for J {
    fn from(x: usize) -> J {
        J::I(x as i128)
    }
}
impl From<i64> for J {
    fn from(x: i64) -> J {
        J::I(x as i128)
    }
}
impl From<u32> for J {
    fn from(x: u32) -> J {
        J::I(x as i128)
    }
}
impl From<bool> for J {
    fn from(x: bool) -> J {
        J::B(x)
    }
}
impl From<&str> for J {
    fn from(x: &str) -> J {
        J::S(x.to_string())
    }
}
impl From<String> for J {
    fn from(x: String) -> J {
        J::S(x)
    }
}

// ---------------------------------------------------------------- context

#[derive(Clone, Copy, PartialEq, Eq, Debug)]
pub enum Tier {
    Quick,
    Thorough,
}

#[derive(Clone, Debug)]
pub struct Ctx {
    pub id: String,
    pub tier: Tier,
    pub seed: u64,
    pub profile: &'static str,
    pub replay: Option<PathBuf>,
    pub verif_dir: PathBuf,
    pub args: Vec<String>,
}

impl Ctx {
    pub fn quick(&self) -> bool {
        self.tier == Tier::Quick
    }
    pub fn pick<T>(&self, q: T, t: T) -> T {
        if self.quick() {
            q
        } else {
            t
        }
    }
}

pub const PROFILE: &str = if cfg!(debug_assertions) { "chk" } else { "rel" };

// ---------------------------------------------------------------- report

#[derive(Clone, Debug)]
pub struct Violation {
    /// Stable identification of *what* fails (no spaces): used by the
    /// known-findings matcher and to group replay files.
    pub key: String,
    /// Everything needed to re-execute the case.
    pub replay: J,
    pub what: String,
}

pub struct Report {
    pub level: &'static str,
    pub rule: String,
    pub evaluations: u64,
    pub nontrivial: u64,
    pub states: u64,
    pub transitions: u64,
    pub traces: u64,
    pub exhaustive: bool,
    pub samples: Vec<J>,
    pub assumptions: Vec<String>,
    pub extra: BTreeMap<String, J>,
    pub violations: Vec<Violation>,
    pub machinery_errors: Vec<String>,
}

impl Report {
    pub fn new(level: &'static str) -> Report {
        Report {
            level,
            rule: String::new(),
            evaluations: 0,
            nontrivial: 0,
            states: 0,
            transitions: 0,
            traces: 0,
            exhaustive: true,
            samples: vec![],
            assumptions: vec![],
            extra: BTreeMap::new(),
            violations: vec![],
            machinery_errors: vec![],
        }
    }
    pub fn sample(&mut self, j: J) {
        if self.samples.len() < 12 {
            self.samples.push(j);
        }
    }
    pub fn set<T: Into<J>>(&mut self, k: &str, v: T) {
        self.extra.insert(k.to_string(), v.into());
    }
    pub fn add_count(&mut self, k: &str, v: u64) {
        let cur = match self.extra.get(k) {
            Some(J::I(i)) => *i as u64,
            _ => 0,
        };
        self.extra.insert(k.to_string(), J::I((cur + v) as i128));
    }
    pub fn violation(&mut self, key: String, what: String, replay: J) {
        // a panic inside the harness' own code is machinery trouble, never a verdict
        if is_harness_site(&key) {
            self.machinery_errors.push(format!("harness panic: {} :: {}", key, what));
            return;
        }
        self.violations.push(Violation { key, replay, what });
    }
    pub fn machinery(&mut self, msg: String) {
        self.machinery_errors.push(msg);
    }
}

/// Does a violation key name a panic site inside the harness crate itself?
pub fn is_harness_site(key: &str) -> bool {
    for f in ["common", "refmodel", "sweep", "main"] {
        if key.contains(&format!("site=src/{}.rs@", f)) {
            return true;
        }
    }
    if let Some(i) = key.find("site=src/c") {
        let rest = &key[i + 10..];
        let b = rest.as_bytes();
        if b.len() >= 5 && b[0].is_ascii_digit() && b[1].is_ascii_digit() && &rest[2..5] == ".rs" {
            return true;
        }
    }
    false
}

// ---------------------------------------------------------------- known findings

pub struct KnownFinding {
    pub property: String,
    pub key: String,
    pub text: String,
}

pub fn load_known(ctx: &Ctx) -> Vec<KnownFinding> {
    let path = ctx.verif_dir.join("known_findings.txt");
    let mut out = vec![];
    let Ok(s) = std::fs::read_to_string(&path) else {
        return out;
    };
    for line in s.lines() {
        let line = line.trim();
        if !line.starts_with("known:") {
            continue; // "fixed:" entries and comments suppress nothing
        }
        let mut property = String::new();
        let mut key = String::new();
        for tok in line.split_whitespace() {
            if let Some(v) = tok.strip_prefix("property=") {
                property = v.to_string();
            } else if let Some(v) = tok.strip_prefix("key=") {
                key = v.to_string();
            }
        }
        if !property.is_empty() && !key.is_empty() {
            out.push(KnownFinding {
                property,
                key,
                text: line.to_string(),
            });
        }
    }
    out
}

fn key_matches(pat: &str, key: &str) -> bool {
    if let Some(prefix) = pat.strip_suffix('*') {
        key.starts_with(prefix)
    } else {
        pat == key
    }
}

/// Finalise a run: write replays, print VIOLATION / KNOWN-FINDING lines,
/// write the per-profile evidence part. Returns the process exit code.
pub fn finish(ctx: &Ctx, rep: &Report, wall_s: f64) -> i32 {
    let known = load_known(ctx);
    let mut known_hit: BTreeMap<usize, u64> = BTreeMap::new();
    let mut fresh: BTreeMap<String, Vec<&Violation>> = BTreeMap::new();
    for v in &rep.violations {
        let mut matched = false;
        for (i, k) in known.iter().enumerate() {
            if k.property == ctx.id && key_matches(&k.key, &v.key) {
                *known_hit.entry(i).or_default() += 1;
                matched = true;
                break;
            }
        }
        if !matched {
            fresh.entry(v.key.clone()).or_default().push(v);
        }
    }
    for (i, cnt) in &known_hit {
        println!(
            "KNOWN-FINDING: property={} {} (re-observed {} times)",
            ctx.id, known[*i].text, cnt
        );
    }
    let mut nviol = 0u64;
    let rdir = ctx.verif_dir.join("replays").join(&ctx.id);
    let mut printed = 0;
    for (key, vs) in &fresh {
        nviol += vs.len() as u64;
        // At most 3 replay files per distinct key, at most 40 lines overall.
        for (j, v) in vs.iter().take(3).enumerate() {
            if printed >= 40 {
                break;
            }
            let _ = std::fs::create_dir_all(&rdir);
            let fname = format!(
                "{}-{}-{}.json",
                ctx.profile,
                sanitize(key),
                j
            );
            let path = rdir.join(fname);
            let doc = J::obj(vec![
                ("property", J::s(&ctx.id)),
                ("profile", J::s(ctx.profile)),
                ("key", J::s(key)),
                ("tier", J::s(if ctx.quick() { "quick" } else { "thorough" })),
                ("what", J::s(&v.what)),
                ("replay", v.replay.clone()),
                ("same_key_count", J::from(vs.len())),
            ]);
            let _ = std::fs::write(&path, doc.render() + "\n");
            println!(
                "VIOLATION property={} replay={} :: {} :: {}",
                ctx.id,
                path.display(),
                key,
                v.what
            );
            printed += 1;
        }
    }
    for m in &rep.machinery_errors {
        println!("MACHINERY-ERROR property={} {}", ctx.id, m);
    }

    // evidence part
    let mut cov: Vec<(String, J)> = vec![];
    cov.push(("evaluations".into(), J::from(rep.evaluations)));
    cov.push(("distinct_nontrivial".into(), J::from(rep.nontrivial)));
    cov.push(("rule".into(), J::s(&rep.rule)));
    cov.push(("samples".into(), J::A(rep.samples.clone())));
    if rep.level == "model_checking" {
        cov.push(("states".into(), J::from(rep.states)));
        cov.push(("transitions".into(), J::from(rep.transitions)));
        cov.push((
            "traces_validated_against_impl".into(),
            J::from(rep.traces),
        ));
    }
    cov.push(("exhaustive".into(), J::B(rep.exhaustive)));
    for (k, v) in &rep.extra {
        cov.push((k.clone(), v.clone()));
    }
    let doc = J::O(vec![
        ("property_id".into(), J::s(&ctx.id)),
        (
            "tier".into(),
            J::s(if ctx.quick() { "quick" } else { "thorough" }),
        ),
        ("seed".into(), J::from(ctx.seed)),
        ("level".into(), J::s(rep.level)),
        ("profile".into(), J::s(ctx.profile)),
        ("coverage".into(), J::O(cov)),
        (
            "assumptions".into(),
            J::A(rep.assumptions.iter().map(J::s).collect()),
        ),
        ("wall_s".into(), J::F(wall_s)),
        ("violations".into(), J::from(nviol)),
        (
            "known_findings_reobserved".into(),
            J::from(known_hit.len()),
        ),
    ]);
    let pdir = ctx.verif_dir.join("evidence").join(".parts");
    let _ = std::fs::create_dir_all(&pdir);
    let ppath = pdir.join(format!("{}.{}.json", ctx.id, ctx.profile));
    if let Err(e) = std::fs::write(&ppath, doc.render() + "\n") {
        println!("MACHINERY-ERROR cannot write {}: {}", ppath.display(), e);
        return 2;
    }
    println!(
        "SUMMARY property={} profile={} tier={} evaluations={} nontrivial={} states={} transitions={} violations={} known={} wall={:.1}s",
        ctx.id,
        ctx.profile,
        if ctx.quick() { "quick" } else { "thorough" },
        rep.evaluations,
        rep.nontrivial,
        rep.states,
        rep.transitions,
        nviol,
        known_hit.len(),
        wall_s
    );
    if nviol > 0 {
        1
    } else if !rep.machinery_errors.is_empty() {
        2
    } else {
        0
    }
}

fn sanitize(s: &str) -> String {
    let mut o: String = s
        .chars()
        .map(|c| if c.is_ascii_alphanumeric() || c == '-' || c == '.' { c } else { '_' })
        .collect();
    o.truncate(100);
    o
}

// ---------------------------------------------------------------- panic capture

thread_local! {
    static LAST_PANIC: RefCell<Option<(String, String)>> = RefCell::new(None);
    static IN_GUARD: std::cell::Cell<u32> = std::cell::Cell::new(0);
}

static HOOK_INSTALLED: Mutex<bool> = Mutex::new(false);
/// Last panic of any thread (panics on pool threads are re-raised by rayon on the caller
/// without their location).
static LAST_PANIC_ANY: Mutex<Option<(String, String)>> = Mutex::new(None);
/// Panic location inside yamaquasi's own sources -> innermost yamaquasi function. A source
/// line belongs to exactly one function, so the (expensive, globally serialised) backtrace
/// is taken once per location; panics raised inside a dependency are always re-attributed.
static SITE_CACHE: Mutex<BTreeMap<(String, u32, u32), String>> = Mutex::new(BTreeMap::new());

pub fn install_panic_hook() {
    let mut g = HOOK_INSTALLED.lock().unwrap();
    if *g {
        return;
    }
    *g = true;
    std::panic::set_hook(Box::new(|info| {
        let loc = info
            .location()
            .map(|l| format!("{}:{}", normalize_path(l.file()), l.line()))
            .unwrap_or_else(|| "?".to_string());
        let msg = if let Some(s) = info.payload().downcast_ref::<&str>() {
            s.to_string()
        } else if let Some(s) = info.payload().downcast_ref::<String>() {
            s.clone()
        } else {
            "<non-string panic>".to_string()
        };
        // The site used in violation keys is "<file>@<innermost yamaquasi function>": stable
        // under unrelated edits (line numbers are kept in the message only), and a panic inside
        // a dependency (bnum overflow checks, slice indexing in core) is attributed to its caller.
        let line = info.location().map(|l| l.line()).unwrap_or(0);
        let file = loc.rsplit_once(':').map(|x| x.0.to_string()).unwrap_or(loc.clone());
        let col = info.location().map(|l| l.column()).unwrap_or(0);
        let own_source = file.starts_with("src/");
        let cached = if own_source {
            SITE_CACHE.lock().ok().and_then(|g| g.get(&(file.clone(), line, col)).cloned())
        } else {
            None
        };
        let caller = if let Some(c) = cached {
            c
        } else {
            let bt = std::backtrace::Backtrace::force_capture().to_string();
            let mut caller = "?".to_string();
            for l in bt.lines() {
                let l = l.trim();
                if let Some(i) = l.find("yamaquasi::") {
                    if l[..i].contains(": ") && !l.contains("ymq_verif") {
                        let mut name = l[i..].to_string();
                        if let Some(j) = name.rfind("::h") {
                            if name.len() - j == 19 {
                                name.truncate(j);
                            }
                        }
                        caller = name.replace(' ', "");
                        break;
                    }
                }
            }
            if own_source && caller != "?" {
                if let Ok(mut g) = SITE_CACHE.lock() {
                    g.insert((file.clone(), line, col), caller.clone());
                }
            }
            caller
        };
        let msg = format!("[line {}] {}", line, msg);
        let loc = format!("{}@{}", file, caller);
        if IN_GUARD.with(|g| g.get()) == 0 && std::thread::current().name() == Some("main") {
            eprintln!("HARNESS PANIC (outside a guarded call) at {}: {}", loc, msg);
        }
        if std::env::var("VERIF_BACKTRACE").is_ok() {
            eprintln!("panic at {}: {}\n{}", loc, msg, std::backtrace::Backtrace::force_capture());
        }
        if let Ok(mut g) = LAST_PANIC_ANY.lock() {
            if g.is_none() {
                *g = Some((loc.clone(), msg.clone()));
            }
        }
        LAST_PANIC.with(|p| *p.borrow_mut() = Some((loc, msg)));
    }));
}

fn normalize_path(p: &str) -> String {
    // /repo/src/foo.rs -> src/foo.rs ; registry paths -> crate/file
    if let Some(i) = p.find("/src/") {
        if p.starts_with("/repo") || p.contains("/yamaquasi") || p.starts_with("/tmp") {
            return p[i + 1..].to_string();
        }
    }
    if let Some(i) = p.find("registry/src/") {
        let rest = &p[i + "registry/src/".len()..];
        if let Some(j) = rest.find('/') {
            return rest[j + 1..].to_string();
        }
    }
    p.to_string()
}

#[derive(Clone, Debug)]
pub struct Panicked {
    pub site: String,
    pub msg: String,
}

impl Panicked {
    pub fn short(&self) -> String {
        let mut m: String = self.msg.chars().take(160).collect();
        m = m.replace('\n', " ");
        format!("{} {}", self.site, m)
    }
}

/// Run f, converting a panic into Err with its source location.
pub fn guarded<T>(f: impl FnOnce() -> T) -> Result<T, Panicked> {
    install_panic_hook();
    LAST_PANIC.with(|p| *p.borrow_mut() = None);
    IN_GUARD.with(|g| g.set(g.get() + 1));
    let res = std::panic::catch_unwind(std::panic::AssertUnwindSafe(f));
    IN_GUARD.with(|g| g.set(g.get() - 1));
    match res {
        Ok(v) => Ok(v),
        Err(_) => {
            let any = LAST_PANIC_ANY.lock().ok().and_then(|mut g| g.take());
            let (site, msg) = LAST_PANIC
                .with(|p| p.borrow_mut().take())
                .or(any)
                .unwrap_or(("?".into(), "?".into()));
            Err(Panicked { site, msg })
        }
    }
}

// ---------------------------------------------------------------- misc

pub fn now() -> std::time::Instant {
    std::time::Instant::now()
}

/// Deterministic 64-bit mixer (splitmix64), for structured pseudo-random
/// *corpus construction* only (never a sampling decision: every generated
/// case is checked and the generator is a pure function of its index).
pub fn mix64(mut z: u64) -> u64 {
    z = z.wrapping_add(0x9e3779b97f4a7c15);
    z = (z ^ (z >> 30)).wrapping_mul(0xbf58476d1ce4e5b9);
    z = (z ^ (z >> 27)).wrapping_mul(0x94d049bb133111eb);
    z ^ (z >> 31)
}

// ---------------------------------------------------------------- watchdog runner

/// Runs `f(i)` for every i in 0..n on `threads` worker threads with a per-case wall cap.
/// Returns the results, or Err(i) for the first case that exceeded the cap (its thread is
/// left running detached; the process must exit through std::process::exit afterwards).
pub fn run_watched<R: Send + 'static>(
    n: usize,
    threads: usize,
    cap: std::time::Duration,
    f: std::sync::Arc<dyn Fn(usize) -> R + Send + Sync>,
) -> Result<Vec<Option<R>>, usize> {
    use std::sync::atomic::{AtomicUsize, Ordering};
    use std::sync::Arc;
    let next = Arc::new(AtomicUsize::new(0));
    let results: Arc<Mutex<Vec<Option<R>>>> = Arc::new(Mutex::new((0..n).map(|_| None).collect()));
    // per-thread (current case + 1, start instant)
    let slots: Arc<Vec<Mutex<(usize, std::time::Instant)>>> =
        Arc::new((0..threads).map(|_| Mutex::new((0usize, std::time::Instant::now()))).collect());
    let done = Arc::new(AtomicUsize::new(0));
    for t in 0..threads {
        let (next, results, slots, done, f) = (next.clone(), results.clone(), slots.clone(), done.clone(), f.clone());
        std::thread::Builder::new()
            .stack_size(32 << 20)
            .spawn(move || {
                loop {
                    let i = next.fetch_add(1, Ordering::SeqCst);
                    if i >= n {
                        break;
                    }
                    *slots[t].lock().unwrap() = (i + 1, std::time::Instant::now());
                    // a panic here is outside every guarded() call: the harness itself failed
                    let r = match std::panic::catch_unwind(std::panic::AssertUnwindSafe(|| f(i))) {
                        Ok(r) => r,
                        Err(_) => {
                            let any = LAST_PANIC_ANY.lock().ok().and_then(|mut g| g.take());
                            let (site, msg) = any.unwrap_or(("?".into(), "?".into()));
                            println!("MACHINERY-ERROR harness worker panicked in job {} at {}: {}", i, site, msg);
                            std::process::exit(2);
                        }
                    };
                    *slots[t].lock().unwrap() = (0, std::time::Instant::now());
                    results.lock().unwrap()[i] = Some(r);
                }
                done.fetch_add(1, Ordering::SeqCst);
            })
            .expect("spawn watched worker");
    }
    loop {
        if done.load(Ordering::SeqCst) == threads {
            break;
        }
        for s in slots.iter() {
            let g = s.lock().unwrap();
            if g.0 != 0 && g.1.elapsed() > cap {
                return Err(g.0 - 1);
            }
        }
        std::thread::sleep(std::time::Duration::from_millis(50));
    }
    let mut g = results.lock().unwrap();
    Ok(std::mem::take(&mut *g))
}
