//! C10: polynomial products, cyclic convolutions, multipoint evaluation against
//! schoolbook definitions (structured operands with closed-form integer convolutions
//! for large transforms; full bnum schoolbook for small sizes).

use bnum::BUint;
use rayon::prelude::*;
use yamaquasi::arith_fft::{convolve_modn, convolve_modn_ntt, MultiZmodP};
use yamaquasi::arith_montgomery::{MInt, ZmodN};
use yamaquasi::arith_poly::{Poly, PolyRing};

use crate::common::*;
use crate::refmodel::{self as rm, W};

/// 1152-bit accumulator for products of two residues below 2^500 (+ 2^20 terms).
type P = BUint<18>;

fn p_from(x: &W) -> P {
    rm::w_to::<18>(x)
}

fn moduli(ctx: &Ctx) -> Vec<W> {
    let mut v = vec![];
    // one per word count, in three shapes; both sides of every Kronecker packing class edge
    for bits in [
        2u32, 17, 64, 65, 128, 149, 150, 151, 155, 156, 192, 244, 245, 246, 256, 279, 280, 281, 309, 310, 311, 320, 384, 448, 499, 500,
    ] {
        // all-ones (R = 1 mod n when bits is a multiple of 64), 2^(b-1)+1, generic
        v.push((W::ONE << bits) - W::ONE);
        if bits > 2 {
            v.push((W::ONE << (bits - 1)) + W::ONE);
            let g = ((W::ONE << (bits - 1)) + (W::from_digit(0x9e3779b97f4a7c15) << (bits.saturating_sub(70))) + W::from_digit(0x1234567)) | W::ONE;
            if g.bits() == bits {
                v.push(g);
            }
        }
    }
    v.push((W::ONE << 64) + W::ONE);
    v.retain(|n| n.bit(0) && *n >= W::from_digit(3) && n.bits() <= 500);
    v.sort();
    v.dedup();
    if ctx.quick() {
        // quick: all class-edge sizes, two shapes each
        v = v.into_iter().enumerate().filter(|(i, _)| i % 3 != 1).map(|(_, n)| n).collect();
    }
    if let Ok(b) = std::env::var("VERIF_C10_ONLY_BITS") {
        let b: u32 = b.parse().unwrap();
        v.retain(|n| n.bits() == b);
    }
    v
}

/// Operand = small signed coefficients times a residue multiplier.
#[derive(Clone)]
struct Operand {
    s: Vec<i64>,
    mult: W,
    name: String,
}

fn patterns(len: usize, n: &W, all_positions: bool) -> Vec<Operand> {
    let big = *n / W::from_digit(3) + W::ONE;
    let mut v = vec![];
    let mk = |s: Vec<i64>, mult: W, name: &str| Operand { s, mult, name: name.to_string() };
    v.push(mk(vec![1; len], W::ONE, "ones"));
    v.push(mk(vec![-1; len], W::ONE, "n-1"));
    v.push(mk(vec![1; len], big, "n/3"));
    v.push(mk((0..len as i64).map(|i| i + 1).collect(), W::ONE, "ramp"));
    v.push(mk((0..len as i64).map(|i| -1 - i).collect(), W::ONE, "n-1-ramp"));
    v.push(mk((0..len as i64).map(|i| if i % 2 == 0 { 0 } else { -1 }).collect(), W::ONE, "alt(0,n-1)"));
    v.push(mk((0..len as i64).map(|i| ((i * i * 12345 + i * 1234 + 123) % 1000003) - 500000).collect(), big, "quadratic*n/3"));
    v.push(mk(vec![0; len], W::ONE, "zeros"));
    let mut pos: Vec<usize> = if all_positions { (0..len).collect() } else { vec![0, 1, len / 2, len - 1] };
    pos.retain(|&i| i < len);
    pos.sort();
    pos.dedup();
    for i in pos {
        let mut s = vec![0; len];
        s[i] = 1;
        v.push(mk(s.clone(), W::ONE, &format!("e_{}", i)));
        s[i] = -1;
        v.push(mk(s, big, &format!("-e_{}*n/3", i)));
    }
    v
}

fn is_const(s: &[i64]) -> Option<i64> {
    if s.iter().all(|&x| x == s[0]) {
        Some(s[0])
    } else {
        None
    }
}

/// Linear convolution of small signed vectors, exact in i128.
fn lin_conv(a: &[i64], b: &[i64]) -> Option<Vec<i128>> {
    let (la, lb) = (a.len(), b.len());
    let mut out = vec![0i128; la + lb - 1];
    let nza: Vec<usize> = (0..la).filter(|&i| a[i] != 0).collect();
    let nzb: Vec<usize> = (0..lb).filter(|&i| b[i] != 0).collect();
    if nza.len() * nzb.len() <= 1 << 24 {
        for &i in &nza {
            for &j in &nzb {
                out[i + j] += a[i] as i128 * b[j] as i128;
            }
        }
        return Some(out);
    }
    // constant operand: prefix sums
    let (c, cl, other) = if let Some(c) = is_const(a) {
        (c, la, b)
    } else if let Some(c) = is_const(b) {
        (c, lb, a)
    } else {
        return None;
    };
    let mut pre = vec![0i128; other.len() + 1];
    for i in 0..other.len() {
        pre[i + 1] = pre[i] + other[i] as i128;
    }
    for i in 0..out.len() {
        // sum of other[j] for j in [i-cl+1, i] clipped
        let lo = (i + 1).saturating_sub(cl);
        let hi = (i + 1).min(other.len());
        if hi > lo {
            out[i] = (pre[hi] - pre[lo]) * c as i128;
        }
    }
    Some(out)
}

fn signed_mod(x: i128, n: &W) -> W {
    let a = W::from_str_radix(&x.unsigned_abs().to_string(), 10).unwrap() % *n;
    if x < 0 && !a.is_zero() {
        *n - a
    } else {
        a
    }
}

fn to_m(zn: &ZmodN, x: &W) -> MInt {
    zn.from_int(rm::w_to(x))
}
fn from_m(zn: &ZmodN, x: &MInt) -> W {
    rm::w_from(&zn.to_int(*x))
}

fn operand_mints(zn: &ZmodN, n: &W, o: &Operand) -> Vec<MInt> {
    let m = o.mult % *n;
    // cache by value
    let mut cache: std::collections::HashMap<i64, MInt> = std::collections::HashMap::new();
    o.s.iter()
        .map(|&c| *cache.entry(c).or_insert_with(|| to_m(zn, &rm::w_mulmod(&signed_mod(c as i128, n), &m, n))))
        .collect()
}

struct Bad {
    key: String,
    what: String,
}

/// One convolution case on both implementations.
fn conv_case(zn: &ZmodN, n: &W, mzp: Option<&MultiZmodP>, size: usize, a: &Operand, b: &Operand, offset: usize, rlen: usize, bad: &mut Vec<Bad>) -> u64 {
    let Some(lin) = lin_conv(&a.s, &b.s) else { return 0 };
    // cyclic fold
    let mut cyc = vec![0i128; size];
    for (i, v) in lin.iter().enumerate() {
        cyc[i % size] += *v;
    }
    let mm = rm::w_mulmod(&(a.mult % *n), &(b.mult % *n), n);
    let pa = operand_mints(zn, n, a);
    let pb = operand_mints(zn, n, b);
    let mut ev = 0;
    let desc = |which: &str| format!("{} n={} ({} bits) size={} a={}[{}] b={}[{}] offset={} reslen={}", which, n, n.bits(), size, a.name, a.s.len(), b.name, b.s.len(), offset, rlen);
    let mut check = |which: &str, res: &[MInt], bad: &mut Vec<Bad>| {
        for i in 0..rlen {
            let want = rm::w_mulmod(&signed_mod(cyc[offset + i], n), &mm, n);
            let got = from_m(zn, &res[i]);
            if got != want {
                bad.push(Bad {
                    key: format!("fn={};bits={}", which, n.bits()),
                    what: format!("{}: coefficient {} is {} expected {}", desc(which), offset + i, got, want),
                });
                return;
            }
        }
    };
    let mut res = vec![MInt::default(); rlen];
    match guarded(|| convolve_modn(zn, size, &pa, &pb, &mut res, offset)) {
        Ok(()) => check("convolve_modn", &res, bad),
        Err(e) => bad.push(Bad {
            key: format!("fn=convolve_modn;what=panic;site={}", e.site),
            what: format!("{}: panic {}", desc("convolve_modn"), e.short()),
        }),
    }
    ev += 1;
    if let Some(mzp) = mzp {
        let mut res = vec![MInt::default(); rlen];
        match guarded(|| convolve_modn_ntt(mzp, size, &pa, &pb, &mut res, offset)) {
            Ok(()) => check("convolve_modn_ntt", &res, bad),
            Err(e) => bad.push(Bad {
                key: format!("fn=convolve_modn_ntt;what=panic;site={}", e.site),
                what: format!("{}: panic {}", desc("convolve_modn_ntt"), e.short()),
            }),
        }
        ev += 1;
    }
    ev
}

fn conv_modulus(n: &W, kmax: u32, kstress: u32) -> (u64, Vec<Bad>) {
    let mut bad = vec![];
    let mut ev = 0;
    let zn = ZmodN::new(rm::w_to(n));
    // stress: full-length worst-case operands (largest accumulated sums) at the large
    // transform sizes, where a Kronecker digit overflows first
    for k in (kmax + 1)..=kstress {
        let size = 1usize << k;
        let pats = patterns(size, n, false);
        let pick = |name: &str| pats.iter().find(|o| o.name == name).unwrap().clone();
        let lhs = [pick("ones"), pick("n-1"), pick("n/3")];
        let rhs = [pick("ones"), pick("n-1"), pick("n/3"), pick("ramp")];
        let mzp = if k <= 14 { Some(MultiZmodP::new(&zn, k)) } else { None };
        for a in &lhs {
            for b in &rhs {
                ev += conv_case(&zn, n, mzp.as_ref(), size, a, b, 0, size, &mut bad);
            }
        }
        // sparse operands: transforms of unit vectors are shifted and negated residues (words of
        // all ones), the carry corner cases of the large-element (Karatsuba) ring product
        let unit = |len: usize, i: usize, neg: bool| {
            let mut s = vec![0i64; len];
            s[i] = if neg { -1 } else { 1 };
            Operand { s, mult: if neg { *n / W::from_digit(3) + W::ONE } else { W::ONE }, name: format!("{}e_{}", if neg { "-n/3*" } else { "" }, i) }
        };
        let h = size / 2;
        for (la, ia, lb, ib, off) in [(h, h - 1, h - 1, h - 2, 0usize), (h, h - 1, h - 1, h - 2, h), (h, h - 1, 3, 2, 0), (size, size - 1, size, size - 1, 0), (h + 1, h, h, 1, 1), (size, size - 2, 2, 1, size - 1)] {
            for neg in [false, true] {
                ev += conv_case(&zn, n, mzp.as_ref(), size, &unit(la, ia, false), &unit(lb, ib, neg), off, size - off, &mut bad);
            }
        }
        for (a, b) in [("alt(0,n-1)", "n-1-ramp"), ("quadratic*n/3", "alt(0,n-1)")] {
            ev += conv_case(&zn, n, mzp.as_ref(), size, &pick(a), &pick(b), 0, size, &mut bad);
        }
        if bad.len() > 40 {
            return (ev, bad);
        }
    }
    for k in 1..=kmax {
        let size = 1usize << k;
        let mzp = MultiZmodP::new(&zn, k);
        let mut lens: Vec<usize> = vec![1, size / 2, size / 2 + 1, size];
        if size >= 4 {
            lens.push(size / 2 - 1);
        }
        lens.retain(|&l| l >= 1 && l <= size);
        lens.sort();
        lens.dedup();
        let offs: Vec<usize> = {
            let mut o = vec![0, 1, size / 2, size - 1];
            o.sort();
            o.dedup();
            o
        };
        let mut rot = 0usize;
        for &la in &lens {
            for &lb in &lens {
                let pa = patterns(la, n, size <= 64);
                let pb = patterns(lb, n, size <= 64);
                let full = la == size && lb == size || size <= 16;
                if full {
                    for a in &pa {
                        for b in &pb {
                            let off = offs[rot % offs.len()];
                            rot += 1;
                            ev += conv_case(&zn, n, Some(&mzp), size, a, b, off, size - off, &mut bad);
                        }
                    }
                } else {
                    // rotate through the pattern pairs deterministically
                    for t in 0..pa.len().max(pb.len()) {
                        let a = &pa[(t + rot) % pa.len()];
                        let b = &pb[(t * 3 + rot / 2) % pb.len()];
                        let off = offs[(rot + t) % offs.len()];
                        let rlen = if t % 5 == 0 { 1 } else { size - off };
                        ev += conv_case(&zn, n, Some(&mzp), size, a, b, off, rlen, &mut bad);
                    }
                    rot += 1;
                }
                if bad.len() > 40 {
                    return (ev, bad);
                }
            }
        }
    }
    (ev, bad)
}

// ------------------------------------------------------------ Poly operations, full reference

fn ref_mul(a: &[W], b: &[W], n: &W) -> Vec<W> {
    let mut out = vec![P::ZERO; a.len() + b.len() - 1];
    let ap: Vec<P> = a.iter().map(p_from).collect();
    let bp: Vec<P> = b.iter().map(p_from).collect();
    for i in 0..a.len() {
        if ap[i].is_zero() {
            continue;
        }
        for j in 0..b.len() {
            out[i + j] += ap[i] * bp[j];
        }
    }
    let np = p_from(n);
    out.iter()
        .map(|x| {
            let r = *x % np;
            let mut d = [0u64; 40];
            d[..18].copy_from_slice(r.digits());
            W::from_digits(d)
        })
        .collect()
}

fn gen_vec(len: usize, n: &W, seed: u64) -> Vec<W> {
    // structured, deterministic: mixture of 0, 1, n-1 and generic residues
    (0..len)
        .map(|i| {
            let h = mix64(seed ^ (i as u64).wrapping_mul(0x9e3779b97f4a7c15));
            match h % 7 {
                0 => W::ZERO,
                1 => W::ONE,
                2 => *n - W::ONE,
                _ => {
                    let mut d = [0u64; 40];
                    for (j, w) in d.iter_mut().enumerate().take(8) {
                        *w = mix64(h ^ j as u64);
                    }
                    W::from_digits(d) % *n
                }
            }
        })
        .collect()
}

fn poly_modulus(n: &W, quick: bool) -> (u64, Vec<Bad>) {
    let mut bad = vec![];
    let mut ev = 0u64;
    let zn = ZmodN::new(rm::w_to(n));
    let zr_big = PolyRing::new(&zn, 2048);
    let zr_small = PolyRing::new(&zn, 16);
    let mv = |v: &[W]| -> Vec<MInt> { v.iter().map(|x| to_m(&zn, x)).collect() };
    let wv = |v: &[MInt]| -> Vec<W> { v.iter().map(|x| from_m(&zn, x)).collect() };
    let lmax = if quick { 40 } else { 72 };
    let mut lens: Vec<usize> = (1..=lmax).collect();
    for j in 6..=(if quick { 8 } else { 10 }) {
        for d in [-1i64, 0, 1] {
            lens.push(((1i64 << j) + d) as usize);
        }
    }
    // products: every (la, lb) over the small range; equal lengths for the big ones
    for &la in &lens {
        let lbs: Vec<usize> = if la <= lmax { (1..=lmax).collect() } else { vec![la] };
        for lb in lbs {
            // thin the quadratic range deterministically in quick mode
            if quick && la <= lmax && (la * 31 + lb * 17) % 3 != 0 && la != lb && la != 28 && lb != 28 && la != 29 && lb != 29 {
                continue;
            }
            let a = gen_vec(la, n, 1000 + la as u64);
            let b = gen_vec(lb, n, 2000 + lb as u64);
            let want = ref_mul(&a, &b, n);
            let (ma, mb) = (mv(&a), mv(&b));
            for zr in [&zr_big, &zr_small] {
                if std::ptr::eq(zr, &zr_small) && la.max(lb) > 16 {
                    continue;
                }
                let pa = Poly::new(zr, ma.clone());
                let pb = Poly::new(zr, mb.clone());
                let mut check = |name: &str, got: Result<Vec<MInt>, Panicked>, bad: &mut Vec<Bad>| {
                    ev += 1;
                    match got {
                        Err(e) => bad.push(Bad {
                            key: format!("fn={};what=panic;site={}", name, e.site),
                            what: format!("{} n={} la={} lb={}: panic {}", name, n, la, lb, e.short()),
                        }),
                        Ok(g) => {
                            let g = wv(&g);
                            let ok = g.len() >= want.len() && g[..want.len()] == want[..] && g[want.len()..].iter().all(|x| x.is_zero());
                            if !ok {
                                let idx = (0..want.len()).find(|&i| i >= g.len() || g[i] != want[i]);
                                bad.push(Bad {
                                    key: format!("fn={};bits={}", name, n.bits()),
                                    what: format!("{} n={} la={} lb={}: first wrong coefficient {:?} (len {})", name, n, la, lb, idx, g.len()),
                                });
                            }
                        }
                    }
                };
                if la >= lb {
                    // mul_basic/karatsuba size their output from the first operand
                    check("mul_basic", guarded(|| Poly::mul_basic(&pa, &pb).c), &mut bad);
                }
                if la == lb {
                    check("mul_karatsuba", guarded(|| Poly::mul_karatsuba(&pa, &pb).c), &mut bad);
                }
                if zr.mzp().is_some() && la + lb >= 3 {
                    check("mul_fft", guarded(|| Poly::mul_fft(&pa, &pb).c), &mut bad);
                }
            }
        }
        if bad.len() > 12 {
            return (ev, bad);
        }
    }
    // middle product: p has 2n-1 coefficients, q has n: result[i] = (p*q)[n-1+i]
    // division: quotient q with q*d = p mod x^len (d[0] invertible)
    for &l in &lens {
        if l < 2 {
            continue;
        }
        let p = gen_vec(2 * l - 1, n, 3000 + l as u64);
        let q = gen_vec(l, n, 4000 + l as u64);
        let full = ref_mul(&p, &q, n);
        let pp = Poly::new(&zr_big, mv(&p));
        let pq = Poly::new(&zr_big, mv(&q));
        ev += 1;
        match guarded(|| Poly::middlemul(&pp, &pq).c) {
            Err(e) => bad.push(Bad {
                key: format!("fn=middlemul;what=panic;site={}", e.site),
                what: format!("middlemul n={} len={}: panic {}", n, l, e.short()),
            }),
            Ok(g) => {
                let g = wv(&g);
                if g.len() != l || (0..l).any(|i| g[i] != full[l - 1 + i]) {
                    bad.push(Bad {
                        key: format!("fn=middlemul;bits={}", n.bits()),
                        what: format!("middlemul n={} len={}: wrong", n, l),
                    });
                }
            }
        }
        let mut d = gen_vec(l, n, 5000 + l as u64);
        d[0] = W::ONE;
        if l % 3 == 0 {
            d[0] = *n - W::ONE; // another unit
        }
        let pnum = gen_vec(l, n, 6000 + l as u64);
        let pn = Poly::new(&zr_big, mv(&pnum));
        let pd = Poly::new(&zr_big, mv(&d));
        ev += 1;
        match guarded(|| Poly::div_mod_xn(&pn, &pd).c) {
            Err(e) => bad.push(Bad {
                key: format!("fn=div_mod_xn;what=panic;site={}", e.site),
                what: format!("div_mod_xn n={} len={}: panic {}", n, l, e.short()),
            }),
            Ok(g) => {
                let g = wv(&g);
                let back = ref_mul(&g, &d, n);
                if g.len() != l || (0..l).any(|i| back[i] != pnum[i]) {
                    bad.push(Bad {
                        key: format!("fn=div_mod_xn;bits={}", n.bits()),
                        what: format!("div_mod_xn n={} len={}: quotient*divisor != dividend mod x^len", n, l),
                    });
                }
            }
        }
    }
    // roots_eval on the complete grid of (number of roots, number of points): the ring is sized
    // from the points while the operands are padded to the next power of two, and the chunked
    // remainder branch starts when the roots outnumber the padded points -- every combination
    // of the two lengths is a different path through the product tree
    if !quick || [64u32, 128, 256, 500].contains(&n.bits()) {
        let (amax, bmax) = if quick { (72usize, 40usize) } else { (140, 70) };
        let roots = gen_vec(amax, n, 4242);
        for nb in 1..=bmax {
            let pts = gen_vec(nb, n, 4300 + nb as u64);
            let mut vals = vec![W::ONE; nb];
            for na in 1..=amax {
                for j in 0..nb {
                    vals[j] = rm::w_mulmod(&vals[j], &((pts[j] + *n - roots[na - 1]) % *n), n);
                }
                ev += 1;
                match guarded(|| Poly::roots_eval(&zn, &mv(&roots[..na]), &mv(&pts))) {
                    Err(e) => bad.push(Bad {
                        key: format!("fn=roots_eval;what=panic;site={}", e.site),
                        what: format!("roots_eval n={} |a|={} |b|={} (grid): panic {}", n, na, nb, e.short()),
                    }),
                    Ok(g) => {
                        let g = wv(&g);
                        if g.len() < nb || (0..nb).any(|j| g[j] != vals[j]) {
                            bad.push(Bad {
                                key: format!("fn=roots_eval;bits={}", n.bits()),
                                what: format!("roots_eval n={} |a|={} |b|={} (grid): wrong value", n, na, nb),
                            });
                        }
                    }
                }
                if bad.len() > 12 {
                    break;
                }
            }
        }
    }
    // from_roots / eval / multi_eval / roots_eval
    let degs: Vec<usize> = if quick { vec![1, 2, 3, 7, 8, 9, 27, 28, 29, 64, 65] } else { vec![1, 2, 3, 5, 7, 8, 9, 15, 16, 17, 27, 28, 29, 31, 32, 33, 63, 64, 65, 100, 128, 129, 255, 256, 257] };
    for &dg in &degs {
        let roots = gen_vec(dg, n, 7000 + dg as u64);
        // reference: product of (x - r)
        let mut want = vec![W::ONE];
        for r in &roots {
            let neg = (*n - *r) % *n;
            want = ref_mul(&want, &[neg, W::ONE], n);
        }
        ev += 1;
        let zr = if dg >= 16 { &zr_big } else { &zr_small };
        match guarded(|| Poly::from_roots(zr, &mv(&roots)).c) {
            Err(e) => bad.push(Bad {
                key: format!("fn=from_roots;what=panic;site={}", e.site),
                what: format!("from_roots n={} deg={}: panic {}", n, dg, e.short()),
            }),
            Ok(g) => {
                if wv(&g) != want {
                    bad.push(Bad {
                        key: format!("fn=from_roots;bits={}", n.bits()),
                        what: format!("from_roots n={} deg={}: wrong coefficients", n, dg),
                    });
                }
            }
        }
        // evaluation of a generic polynomial of that many coefficients at point sets of several sizes
        let coefs = gen_vec(dg + 1, n, 8000 + dg as u64);
        let horner = |x: &W| -> W {
            let mut v = W::ZERO;
            for c in coefs.iter().rev() {
                v = (rm::w_mulmod(&v, x, n) + *c) % *n;
            }
            v
        };
        let pol = Poly::new(zr, mv(&coefs));
        for npts in [1usize, dg.max(2) - 1, dg, dg + 1, 2 * dg + 1, 4 * dg + 3] {
            if npts < 2 {
                continue;
            }
            let pts = gen_vec(npts, n, 9000 + (dg * 131 + npts) as u64);
            // documented precondition of multi_eval (comment of its unit test): "the length of P
            // is at most the power of two above len(a)"
            let multi_ok = npts.next_power_of_two() >= (dg + 1).next_power_of_two();
            ev += 1;
            if multi_ok {
            match guarded(|| pol.multi_eval(&mv(&pts))) {
                Err(e) => bad.push(Bad {
                    key: format!("fn=multi_eval;what=panic;site={}", e.site),
                    what: format!("multi_eval n={} coefficients={} points={}: panic {}", n, dg + 1, npts, e.short()),
                }),
                Ok(g) => {
                    let g = wv(&g);
                    if g.len() != npts || (0..npts).any(|i| g[i] != horner(&pts[i])) {
                        bad.push(Bad {
                            key: format!("fn=multi_eval;bits={}", n.bits()),
                            what: format!("multi_eval n={} coefficients={} points={}: wrong value", n, dg + 1, npts),
                        });
                    }
                }
            }
            }
            // roots_eval(a = roots, b = pts): prod_i (b_j - a_i)
            ev += 1;
            match guarded(|| Poly::roots_eval(&zn, &mv(&roots), &mv(&pts))) {
                Err(e) => bad.push(Bad {
                    key: format!("fn=roots_eval;what=panic;site={}", e.site),
                    what: format!("roots_eval n={} |a|={} |b|={}: panic {}", n, dg, npts, e.short()),
                }),
                Ok(g) => {
                    let g = wv(&g);
                    let ok = g.len() >= npts
                        && (0..npts).all(|j| {
                            let mut v = W::ONE;
                            for r in &roots {
                                v = rm::w_mulmod(&v, &((pts[j] + *n - *r) % *n), n);
                            }
                            g[j] == v
                        });
                    if !ok {
                        bad.push(Bad {
                            key: format!("fn=roots_eval;bits={}", n.bits()),
                            what: format!("roots_eval n={} |a|={} |b|={}: wrong value", n, dg, npts),
                        });
                    }
                }
            }
        }
        // eval
        ev += 1;
        let x = gen_vec(1, n, 77)[0];
        if from_m(&zn, &pol.eval(to_m(&zn, &x))) != horner(&x) {
            bad.push(Bad {
                key: "fn=eval".into(),
                what: format!("eval n={} deg={}", n, dg),
            });
        }
        if bad.len() > 12 {
            break;
        }
    }
    (ev, bad)
}

pub fn run(ctx: &Ctx) -> Report {
    let mut rep = Report::new("exploration");
    let ms = moduli(ctx);
    let kmax = ctx.pick(10, 13);
    let kstress = ctx.pick(14, 16);
    let quick = ctx.quick();
    // convolutions
    let res: Vec<(u64, Vec<Bad>)> = ms.par_iter().map(|n| conv_modulus(n, kmax, kstress)).collect();
    let mut conv_ev = 0;
    for (e, bad) in res {
        conv_ev += e;
        for b in bad.into_iter().take(6) {
            rep.violation(b.key, b.what.clone(), J::obj(vec![("case", J::s(b.what))]));
        }
    }
    // polynomial operations on a subset of moduli (one per word count + class edges)
    let pm: Vec<W> = ms.iter().cloned().filter(|n| [2u32, 64, 65, 128, 150, 192, 256, 311, 320, 384, 448, 500].contains(&n.bits())).collect();
    let res: Vec<(u64, Vec<Bad>)> = pm.par_iter().map(|n| poly_modulus(n, quick)).collect();
    let mut poly_ev = 0;
    for (e, bad) in res {
        poly_ev += e;
        for b in bad.into_iter().take(6) {
            rep.violation(b.key, b.what.clone(), J::obj(vec![("case", J::s(b.what))]));
        }
    }
    rep.evaluations = conv_ev + poly_ev;
    rep.nontrivial = conv_ev + poly_ev;
    rep.set("convolution_cases", J::from(conv_ev));
    rep.set("polynomial_operation_cases", J::from(poly_ev));
    rep.set("moduli", J::from(ms.len()));
    rep.set("max_transform_log2", J::from(kmax as u64));
    rep.sample(J::obj(vec![("fn", J::s("convolve_modn / convolve_modn_ntt")), ("n", J::s(ms[ms.len() / 2])), ("size", J::from(1u64 << kmax)), ("a", J::s("n-1 x size")), ("b", J::s("n-1-ramp x size")), ("offset", J::from(1u64))]));
    rep.sample(J::obj(vec![("fn", J::s("convolve_modn")), ("n", J::s("2^192-1")), ("a", J::s("e_{size/2}")), ("b", J::s("ones"))]));
    rep.sample(J::obj(vec![("fn", J::s("mul_fft / mul_karatsuba / mul_basic")), ("lengths", J::s("28 x 29")), ("n", J::s(pm.last().cloned().unwrap_or(W::ONE)))]));
    rep.sample(J::obj(vec![("fn", J::s("roots_eval")), ("|a|", J::from(65u64)), ("|b|", J::from(64u64))]));
    rep.rule = format!("moduli: 2^b-1, 2^(b-1)+1 and a generic shape for b in {{2,17,64,65,128,149..151,155,156,192,244..246,256,279..281,309..311,320,384,448,499,500}} (both sides of every Kronecker packing class edge; quick: two shapes), plus 2^64+1. Convolutions (Schonhage-Strassen and multi-prime NTT): every transform size 2^1..2^{}, operand lengths {{1, size/2-1, size/2, size/2+1, size}}^2, offsets {{0,1,size/2,size-1}}, operands = small signed patterns (ones, n-1, ramp, n-1-ramp, alternating, quadratic, zeros, unit vectors at every position for size <= 64) x residue multipliers {{1, n/3}}: all pattern pairs at full length and for size <= 16, a deterministic rotation elsewhere; above that up to 2^{} the 12 full-length worst-case pairs {{ones,n-1,n/3}} x {{ones,n-1,n/3,ramp}} (largest accumulated sums), 12 unit-vector pairs near the middle and the end with offsets (shifted/negated residues in the large-element ring product) and two dense signed pairs; reference = exact integer convolution (i128) folded cyclically, one reduction per coefficient. Poly operations on 12 moduli: mul_basic/mul_karatsuba/mul_fft for (quick: a third of) all length pairs <= {} and 2^j-1,2^j,2^j+1, middle product, power-series quotient (q*d = p mod x^len), from_roots, multi_eval and roots_eval for point counts below/equal/above the degree, roots_eval on the complete grid of 1..72 roots x 1..40 points (thorough 140 x 70) on four (thorough: all twelve) moduli, against bnum schoolbook with 1152-bit accumulators.", kmax, kstress, if quick { 40 } else { 72 });
    rep.assumptions.push("reference arithmetic: i128 integer convolution and bnum".into());
    rep
}
