//! C09: multiprecision gcd / extended gcd / modular inverse, self-certifying oracle
//! (d | a, d | b, u*a + v*b = d), bounded-exhaustive over width pairs x shapes.

use std::sync::Arc;
use std::time::Duration;

use bnum::{BInt, BUint};
use yamaquasi::arith_gcd::{big_gcd, gcd_internal, inv_mod};

use crate::common::*;
use crate::refmodel::{self as rm, W};

#[derive(Clone, Debug)]
struct Pair {
    a: W,
    b: W,
    fam: &'static str,
}

fn shapes(w: u32, rich: bool) -> Vec<W> {
    if w == 0 {
        return vec![W::ZERO];
    }
    if w == 1 {
        return vec![W::ONE];
    }
    let top = W::ONE << (w - 1);
    let mut v = vec![(W::ONE << w) - W::ONE, top, top + W::ONE];
    // 1010... pattern
    let mut alt = W::ZERO;
    let mut i = w as i64 - 1;
    while i >= 0 {
        alt = alt | (W::ONE << i as u32);
        i -= 2;
    }
    v.push(alt);
    if rich {
        // top word below 2^32 (forces the multiprecision-quotient fallback when aligned)
        if w > 40 {
            v.push(top + (W::ONE << (w - 33)) - W::ONE);
        }
        // zero interior words
        if w > 130 {
            v.push(top + W::from_digit(0x1234567));
            v.push(top + (W::ONE << 64) + W::ONE);
        }
        v.push(top + (top >> 1) + W::from_digit(0x9e3779b97f4a7c15) % top);
    }
    v.sort();
    v.dedup();
    v
}

fn widths(nbits: u32, maxw: u32) -> Vec<u32> {
    let mut v = vec![0u32, 1, 2, 3, 31, 32, 33, 62, 63, 64, 65, 66];
    let mut j = 2;
    while 64 * j <= nbits {
        for d in [-1i32, 0, 1] {
            v.push((64 * j as i32 + d) as u32);
        }
        v.push(64 * j - 32);
        j += 1;
    }
    // every width within 48 bits of the type width, up to the supported maximum
    for w in (nbits - 48)..=maxw {
        v.push(w);
    }
    v.retain(|&w| w <= maxw);
    v.sort();
    v.dedup();
    v
}

fn build_pairs(nbits: u32, maxw: u32, quick: bool) -> Vec<Pair> {
    let mut out = vec![];
    let ws = widths(nbits, maxw);
    for &wa in &ws {
        for &wb in &ws {
            for a in shapes(wa, !quick) {
                for b in shapes(wb, !quick) {
                    out.push(Pair { a, b, fam: "widths" });
                }
            }
        }
    }
    // size gaps 0..70 at several base widths (first quotient of every size)
    for wb in [40u32, 64, 65, 96, 128, 165, 200, 256, 330, 400, 447, 700, 900] {
        for gap in 0..=70u32 {
            let wa = wb + gap;
            if wa > maxw {
                continue;
            }
            for a in shapes(wa, true) {
                for b in shapes(wb, true) {
                    out.push(Pair { a, b, fam: "gap" });
                }
            }
        }
    }
    // Fibonacci and Lucas-like pairs (worst-case quotient sequences)
    let mut f = vec![W::ONE, W::ONE];
    while f[f.len() - 1].bits() < maxw {
        let n = f[f.len() - 1] + f[f.len() - 2];
        f.push(n);
    }
    for k in 2..f.len() - 1 {
        if f[k + 1].bits() > maxw {
            break;
        }
        out.push(Pair { a: f[k + 1], b: f[k], fam: "fibonacci" });
        out.push(Pair { a: f[k], b: f[k + 1], fam: "fibonacci" });
        for j in [1usize, 2, 5, 40] {
            if k > j {
                let a = f[k + 1] + f[k - j];
                if a.bits() <= maxw {
                    out.push(Pair { a, b: f[k], fam: "lucas-like" });
                }
            }
        }
    }
    // multiples a = q*b, a = b, zero operands, huge first quotient then tiny ones
    for wb in [1u32, 31, 64, 65, 128, 200, 300, 448] {
        for b in shapes(wb, true) {
            for q in [
                W::ONE,
                W::TWO,
                W::ONE << 32,
                (W::ONE << 36) - W::ONE,
                (W::ONE << 36) + W::ONE,
                W::from_digit(u64::MAX),
                W::ONE << 200,
            ] {
                let a = q * b;
                if a.bits() <= maxw {
                    out.push(Pair { a, b, fam: "multiple" });
                    out.push(Pair { a: b, b: a, fam: "multiple" });
                    // a = q*b + r with tiny r
                    out.push(Pair { a: a + W::ONE, b, fam: "huge-quotient" });
                    if b > W::from_digit(3) {
                        out.push(Pair { a: a + W::from_digit(3), b, fam: "huge-quotient" });
                    }
                }
            }
            out.push(Pair { a: b, b, fam: "equal" });
            out.push(Pair { a: W::ZERO, b, fam: "zero" });
            out.push(Pair { a: b, b: W::ZERO, fam: "zero" });
        }
    }
    out.push(Pair { a: W::ZERO, b: W::ZERO, fam: "zero" });
    // operands below 2^64: full product of a 13-value alphabet
    let w13: [u64; 13] = [0, 1, 2, 3, 1 << 31, (1 << 32) - 1, 1 << 32, (1 << 32) + 1, (1 << 63) - 1, 1 << 63, (1 << 63) + 1, u64::MAX - 1, u64::MAX];
    for &x in &w13 {
        for &y in &w13 {
            out.push(Pair { a: W::from_digit(x), b: W::from_digit(y), fam: "below-2^64" });
        }
    }
    out
}

fn signed_combo<const N: usize>(u: &BInt<N>, a: &W, v: &BInt<N>, b: &W) -> Option<(W, bool)> {
    // returns |u*a + v*b| and whether it is negative
    let ua = rm::w_from(&u.unsigned_abs()) * *a;
    let vb = rm::w_from(&v.unsigned_abs()) * *b;
    let (un, vn) = (u.is_negative(), v.is_negative());
    Some(match (un, vn) {
        (false, false) => (ua + vb, false),
        (true, true) => (ua + vb, true),
        (false, true) => {
            if ua >= vb {
                (ua - vb, false)
            } else {
                (vb - ua, true)
            }
        }
        (true, false) => {
            if vb >= ua {
                (vb - ua, false)
            } else {
                (ua - vb, true)
            }
        }
    })
}

fn check_pair<const N: usize>(p: &Pair) -> Vec<(String, String)> {
    let mut bad = vec![];
    let a: BUint<N> = rm::w_to(&p.a);
    let b: BUint<N> = rm::w_to(&p.b);
    let desc = || format!("N={} a={} b={} ({} / {} bits, family {})", N, p.a, p.b, p.a.bits(), p.b.bits(), p.fam);
    // extended gcd: both operands non-zero (the wrappers special-case zero)
    let mut dref: Option<W> = None;
    if !p.a.is_zero() && !p.b.is_zero() {
        match guarded(|| gcd_internal::<N, true>(&a, &b)) {
            Err(e) => bad.push((format!("fn=gcd_ext;what=panic;site={}", e.site), format!("gcd_internal::<{},true> panicked: {} -- {}", N, e.short(), desc()))),
            Ok((d, u, v)) => {
                let dw = rm::w_from(&d);
                let ok_div = !dw.is_zero() && (p.a % dw).is_zero() && (p.b % dw).is_zero();
                let combo = signed_combo(&u, &p.a, &v, &p.b).unwrap();
                if !ok_div || combo != (dw, false) {
                    bad.push(("fn=gcd_ext;what=wrong".into(), format!("gcd_internal::<{},true> = ({}, {}, {}): divides both: {}, u*a+v*b = {}{} -- {}", N, d, u, v, ok_div, if combo.1 { "-" } else { "" }, combo.0, desc())));
                } else {
                    dref = Some(dw);
                }
            }
        }
    }
    // plain gcd must agree (or, when the extended one was skipped, equal the reference)
    match guarded(|| big_gcd(&a, &b)) {
        Err(e) => bad.push((format!("fn=big_gcd;what=panic;site={}", e.site), format!("big_gcd panicked: {} -- {}", e.short(), desc()))),
        Ok(d) => {
            let want = dref.unwrap_or_else(|| rm::w_gcd(&p.a, &p.b));
            if rm::w_from(&d) != want {
                bad.push(("fn=big_gcd;what=wrong".into(), format!("big_gcd = {} expected {} -- {}", d, want, desc())));
            }
        }
    }
    // inv_mod(n = a, p = b), b != 0
    if !p.b.is_zero() {
        match guarded(|| inv_mod(&a, &b)) {
            Err(e) => bad.push((format!("fn=inv_mod;what=panic;site={}", e.site), format!("inv_mod panicked: {} -- {}", e.short(), desc()))),
            Ok(Ok(x)) => {
                let xw = rm::w_from(&x);
                let g = dref.unwrap_or_else(|| rm::w_gcd(&p.a, &p.b));
                if g != W::ONE || xw >= p.b || rm::w_mulmod(&xw, &p.a, &p.b) != W::ONE % p.b {
                    bad.push(("fn=inv_mod;what=wrong".into(), format!("inv_mod = Ok({}) -- {}", x, desc())));
                }
            }
            Ok(Err(g)) => {
                let want = dref.unwrap_or_else(|| rm::w_gcd(&p.a, &p.b));
                if rm::w_from(&g) != want || want == W::ONE && p.b != W::ONE {
                    bad.push(("fn=inv_mod;what=wrong".into(), format!("inv_mod = Err({}) but gcd = {} -- {}", g, want, desc())));
                }
            }
        }
    }
    bad
}

pub fn run(ctx: &Ctx) -> Report {
    let mut rep = Report::new("exploration");
    let quick = false && ctx.quick();
    let p16 = Arc::new(build_pairs(1024, 1012, quick));
    let p8 = Arc::new(build_pairs(512, 500, quick));
    let threads = std::thread::available_parallelism().map(|x| x.get()).unwrap_or(8);
    let mut fams: std::collections::BTreeMap<&'static str, u64> = Default::default();
    for (label, pairs) in [("N=16", p16.clone()), ("N=8", p8.clone())] {
        let pp = pairs.clone();
        let is16 = label == "N=16";
        let f: Arc<dyn Fn(usize) -> Vec<(String, String)> + Send + Sync> = Arc::new(move |i| {
            if is16 {
                check_pair::<16>(&pp[i])
            } else {
                check_pair::<8>(&pp[i])
            }
        });
        match run_watched(pairs.len(), threads, Duration::from_secs(20), f) {
            Err(i) => {
                let p = &pairs[i];
                rep.violation(
                    "fn=gcd;what=no-termination".into(),
                    format!("{}: gcd/inv_mod did not return within 20 s on a={} b={} ({} / {} bits, family {})", label, p.a, p.b, p.a.bits(), p.b.bits(), p.fam),
                    J::obj(vec![("N", J::s(label)), ("a", J::s(p.a)), ("b", J::s(p.b))]),
                );
                rep.exhaustive = false;
                rep.evaluations += i as u64;
                rep.nontrivial += 2;
                rep.sample(J::obj(vec![("a", J::s(p.a)), ("b", J::s(p.b))]));
                rep.rule = "aborted on a non-terminating case".into();
                return rep;
            }
            Ok(res) => {
                for (i, r) in res.into_iter().enumerate() {
                    rep.evaluations += 1;
                    *fams.entry(pairs[i].fam).or_default() += 1;
                    if pairs[i].a.bits() >= 64 && pairs[i].b.bits() >= 64 {
                        rep.nontrivial += 1;
                    }
                    for (k, what) in r.unwrap_or_default() {
                        rep.violation(
                            format!("{};{}", label, k),
                            what,
                            J::obj(vec![("N", J::s(label)), ("a", J::s(pairs[i].a)), ("b", J::s(pairs[i].b))]),
                        );
                    }
                }
            }
        }
    }
    rep.set("families", J::O(fams.iter().map(|(k, v)| (k.to_string(), J::from(*v))).collect()));
    rep.sample(J::obj(vec![("a", J::s(p16[p16.len() / 3].a)), ("b", J::s(p16[p16.len() / 3].b)), ("family", J::s(p16[p16.len() / 3].fam))]));
    rep.sample(J::obj(vec![("a", J::s("2^200+1")), ("b", J::s("2^165+1")), ("family", J::s("gap (35 bits)"))]));
    rep.rule = "N=16 (up to 1012 bits) and N=8 (up to 500 bits): all pairs of bit widths over {0,1,2,3,31,32,33,62..66, every 64j-1,64j,64j+1,64j-32, EVERY width from N*64-48 to the supported maximum} x all pairs of 4 (quick) / 7 (thorough) shapes per width (all-ones, single bit, single bit+1, 1010.., small top word, zero interior words); size gaps 0..70 at 13 base widths x 7x7 shapes; all consecutive Fibonacci pairs and Lucas-like perturbations; multiples a = q*b (q in {1,2,2^32,2^36+-1,2^64-1,2^200}) +-tiny remainders; a = b; zero operands; the full 13x13 product of word-boundary values below 2^64. Oracle per pair: (d,u,v)=gcd_internal::<N,true>: d | a, d | b, u*a+v*b = d in 2560-bit arithmetic (hence d = gcd); big_gcd equals it; inv_mod in [0,p) with n*x = 1, or Err(d) with d that gcd > 1. Each call runs under a 20 s watchdog (non-termination is a violation). distinct_nontrivial = pairs with both operands >= 64 bits (the multiword path).".into();
    rep.assumptions.push("bnum BUint<40> arithmetic for the certificate".into());
    rep
}

pub fn replay(_ctx: &Ctx, path: &std::path::Path) -> i32 {
    let s = std::fs::read_to_string(path).expect("replay file");
    let get = |k: &str| -> String {
        let pat = format!("\"{}\":\"", k);
        let i = s.rfind(&pat).expect("field") + pat.len();
        let j = s[i..].find('"').unwrap() + i;
        s[i..j].to_string()
    };
    let p = Pair {
        a: W::from_str_radix(&get("a"), 10).unwrap(),
        b: W::from_str_radix(&get("b"), 10).unwrap(),
        fam: "replay",
    };
    let is16 = get("N") == "N=16";
    let pp = Arc::new(vec![p]);
    let pq = pp.clone();
    let f: Arc<dyn Fn(usize) -> Vec<(String, String)> + Send + Sync> = Arc::new(move |i| if is16 { check_pair::<16>(&pq[i]) } else { check_pair::<8>(&pq[i]) });
    match run_watched(1, 1, Duration::from_secs(20), f) {
        Err(_) => {
            println!("did not terminate within 20 s");
            std::process::exit(1)
        }
        Ok(r) => {
            let bad = r.into_iter().next().unwrap().unwrap_or_default();
            for (k, w) in &bad {
                println!("{} :: {}", k, w);
            }
            if bad.is_empty() {
                0
            } else {
                1
            }
        }
    }
}
