#!/bin/bash
# usage: confirm_seed.sh <worktree> <seed-dir containing patch.diff demo.rs> -> prints CONFIRMED / REJECTED
# Confirms in the scratch worktree: demo passes on the clean tree, suite passes with the patch, demo fails with the patch.
wt="$1"; sd="$2"; REL=${CONFIRM_RELEASE:+--release}
cd "$wt" || exit 2
git checkout -q -- . ; rm -f tests/demo.rs
mkdir -p tests; cp "$sd/demo.rs" tests/demo.rs
log="$sd/confirm.log"; : > "$log"
echo "== demo on clean tree" >> "$log"
if ! timeout 1800 cargo test $REL --offline -j 6 --test demo >> "$log" 2>&1; then echo "REJECTED $sd: demo fails on the clean tree"; rm -f tests/demo.rs; exit 1; fi
if ! git apply "$sd/patch.diff" >> "$log" 2>&1; then echo "REJECTED $sd: patch does not apply"; rm -f tests/demo.rs; exit 1; fi
echo "== demo with patch" >> "$log"
if timeout 1800 cargo test $REL --offline -j 6 --test demo >> "$log" 2>&1; then echo "REJECTED $sd: demo passes with the patch"; git checkout -q -- .; rm -f tests/demo.rs; exit 1; fi
rm -f tests/demo.rs
echo "== suite with patch" >> "$log"
if ! timeout 1800 cargo test --workspace --no-fail-fast --offline -j 6 >> "$log" 2>&1; then echo "REJECTED $sd: suite fails with the patch"; git checkout -q -- .; exit 1; fi
n=$(grep -E "^test result: ok\. 82 passed" "$log" | wc -l)
git checkout -q -- .
if [ "$n" -lt 1 ]; then echo "REJECTED $sd: suite did not report 82 passed"; exit 1; fi
echo "CONFIRMED $sd"
