#!/bin/bash
# usage: run_seed.sh <seed-dir> <check-id> [more check ids]   -- applies seeded/<..>/patch.diff to /repo, runs quick checks, reverts.
sd="$1"; shift
cd /repo || exit 2
if ! git diff --quiet; then echo "/repo has uncommitted changes; refusing"; exit 2; fi
if ! git apply --3way "$sd/patch.diff" 2>/dev/null && ! git apply "$sd/patch.diff"; then echo "PATCH-DOES-NOT-APPLY $sd"; git checkout -q -- . ; exit 3; fi
git reset -q
cd /verif
for id in "$@"; do
  out=$(./check "$id" --tier ${TIER:-quick} 2>&1); code=$?
  nviol=$(echo "$out" | grep -c "^VIOLATION")
  echo "SEED $(basename $(dirname $sd))/$(basename $sd) check=$id exit=$code violations=$nviol"
  echo "$out" | grep "^VIOLATION" | head -3 | cut -c1-400
  echo "$out" | grep "MACHINERY" | head -3 | cut -c1-300
done
git -C /repo checkout -q -- .
git -C /repo status --short | grep -v '^??' | head
