#!/usr/bin/env python3
import json, sys, glob, os
import jsonschema
V = os.path.dirname(os.path.dirname(os.path.abspath(__file__)))
schema = json.load(open("/root/.vp/EVIDENCE.schema.json"))
man = json.load(open(os.path.join(V, "MANIFEST.json")))
ok = True
for c in man["checks"]:
    f = os.path.join(V, c["evidence_file"])
    try:
        d = json.load(open(f))
        jsonschema.validate(d, schema)
        lvl = d["level"]
        if lvl != c["level_claimed"]["category"]:
            print("LEVEL MISMATCH", c["property_id"], lvl, c["level_claimed"]["category"]); ok = False
        cov = d["coverage"]
        print(c["property_id"], "ok", lvl, "eval", cov.get("evaluations"), "nontriv", cov.get("distinct_nontrivial"), "states", cov.get("states"), "wall", d["wall_s"])
    except Exception as e:
        ok = False
        print(c["property_id"], "INVALID", str(e)[:300])
sys.exit(0 if ok else 1)
