#!/usr/bin/env python3
"""Regenerates /verif/MANIFEST.json from the table below and validates it."""
import json, os, sys
V = os.path.dirname(os.path.dirname(os.path.abspath(__file__)))

CHECKS = {
 "C01": dict(cat="exploration", engine="seq-sweep", tech="bounded-exhaustive enumeration of (n, selector, preferences) families on the real factor(), subprocess-sharded, oracle on every case",
   text="Every (n, selector, preference) case of the stated finite families is executed on the real factor() and its answer multiplied back with independent bnum arithmetic; the families are enumerated completely (every n below a bound, every product of primes from stated ranges, every multiset of a branch-point prime pool, the full product of preference settings). This is the bounded-exhaustive input/configuration form of model checking: silent about n outside the families.",
   note="Trusted: bnum multiplication/division; the family bounds in the evidence 'rule'. Selectors with asserted size preconditions are only driven inside them.", ref="3/C01"),
 "C02": dict(cat="exploration", engine="seq-sweep", tech="bounded-exhaustive enumeration of inputs built from certified primes; oracle = known prime multiset / independent primality test",
   text="Automatic mode (and Qs/Mpqs/Siqs/Ecm/Ecm128 inside their working range) is run on every n of the stated families; the result must be the known prime multiset (inputs are built from reference-certified primes) or pass the harness's own primality test element-wise. Exhaustive within the families, for thread counts {1,2,3,4,8,16} on a sub-corpus.",
   note="Trusted: harness primality test (trial division + Miller-Rabin 12/24 bases + strong Lucas). Working range of sieve selectors assumed >= 40 bits.", ref="3/C02"),
 "C03": dict(cat="exploration", engine="seq-sweep", tech="bounded-exhaustive enumeration of inputs x selectors in two build profiles; oracle = the call returns; crashes attributed per subprocess shard",
   text="Every case of the stated families (all small n, all small semiprimes/triples/prime powers, word-boundary edge set, large primes/squares, oversize inputs) x all ten selectors is run in the optimised profile and in the profile with debug assertions and overflow checks; any panic (with its source site), abort, stack overflow or timeout is a violation keyed by (selector, profile, site).",
   note="Trusted: per-case wall cap distinguishes 'does not terminate' only up to the cap; inputs whose sieve set-up alone takes minutes (> 256-bit hard composites) are not driven.", ref="3/C03"),
 "C04": dict(cat="model_checking", engine="loom", tech="stateless model checking of the real multi-threaded code under loom (DPOR, preemption-bounded exhaustive interleaving exploration, C11 memory model)",
   text="The unmodified bodies of factor()/siqs()/mpqs()/qsieve()/ecm() run inside loom::model with the crate's rayon pool, RwLock and atomics replaced by loom objects; for each of 12 contention scenarios (2-3 workers, tiny inputs that still complete, single/double large primes, an input that finishes below the factor-base size, reversed/rotated item orders) loom enumerates every interleaving of the workers' synchronisation operations within the preemption bound (quick: 1; thorough: 2-3) and the oracle (no panic/deadlock, product n, result equal to the single-threaded result) is checked on every execution.",
   note="Trusted: loom 0.7.2 and the shim's faithfulness (work items handed out through a shared cursor instead of rayon's deques; thread counts above 4 not explorable; recursive same-thread read locks tolerated only when no other worker runs).", ref="3/C04"),
 "C05": dict(cat="model_checking", engine="seq-fault+loom", tech="exhaustive enumeration of abort instants on the real code (every poll index k in [0,N]) plus loom exploration of an abort-flipping thread against 2 workers",
   text="(a) For every subject (10 selectors x several inputs, classgroup) and EVERY poll index k the run is repeated with the abort predicate true from poll k on, in both build profiles; (b) under loom an extra thread flips the abort flag and all interleavings with 2 workers are enumerated within the preemption bound. Oracle: no panic/deadlock, Ok with product n or the failure value, bounded work after the abort is signalled (relations published, CPU time of the calling thread, polls).",
   note="Trusted: CPU-time promptness bound max(1s, 3x complete run) is a work-unit proxy; stages that never poll are bounded only by it. loom part as C04.", ref="3/C05"),
 "C06": dict(cat="exploration", engine="seq-exhaustive", tech="exhaustive enumeration of all p below a bound against an Eratosthenes table, complete windows, completely enumerated pseudoprime families",
   text="isprime64 is compared with a sieve table on EVERY p < 2^24 (quick) / 2^32 (thorough), on complete windows around the tier switches (2^20, 2^40, 2^41, 2^32, 2^63, 2^64) and on completely enumerated families where weak base sets fail (p(ap-b), Chernick Carmichael numbers incl. 65..135-bit ones, psi_1..psi_13); pseudoprime() on all of those plus certified 65..500-bit primes, structured even numbers and pairwise products. Even inputs run in a watchdogged subprocess (a non-returning call is a violation).",
   note="Trusted: reference tests (Eratosthenes; trial division + 12-base Miller-Rabin below 2^64; MR24 + strong Lucas above). Beyond 2^32 the 64-bit test is decided on the families and windows only.", ref="3/C06"),
 "C07": dict(cat="exploration", engine="seq-exhaustive", tech="bounded-exhaustive differential checking over word alphabets against schoolbook bnum arithmetic, both build profiles",
   text="Every odd modulus over a 13-value word alphabet for 1..3 words and a 4-value alphabet for 4..8 words (plus 2^(64k)-d, 2^(64k-1)+d, 2^500-d) x an operand set of word-boundary values: roundtrip, gcd, inv, all pairs for mul/add/sub, redc on double-width patterns (incl. all-ones words), redc_large for every length; exhaustive 64-bit mg_* for small odd n; the private 128-bit arithmetic (H1 accessor) against the reference and against ZmodN.",
   note="Trusted: bnum BUint<40> `* / %`. Silent about values outside the alphabets. The 501..512-bit band is outside the documented limit and not driven.", ref="3/C07"),
 "C08": dict(cat="exploration", engine="seq-exhaustive", tech="exhaustive enumeration over all primes below a bound x boundary operand sets against native / %",
   text="modu16 on all primes < 2^16 x all u16; divmod64/modu63/modi64/mod_u128 and the constructor on EVERY prime < 2^24 (quick) / 2^30 (thorough) x ~60 boundary operands; multiword division on 2/4/8/16-word operands with zero/all-ones words; Inverter on every x for small primes and boundary x for primes near every 2^k; sqrt_mod with an Euler-criterion oracle; inv_mod64/pow_mod; isqrt variants; perfect_power against a brute-force table.",
   note="Trusted: native u64/u128 arithmetic and bnum division. Preconditions written in the source delimit the domains (modu63 < 2^63, Inverter p < 2^28, perfect_power n >= 2).", ref="3/C08"),
 "C17": dict(cat="model_checking", engine="seq-exhaustive", tech="explicit walk of the complete PrimeSieve state machine (all 65536 blocks) + exhaustive enumeration of k and B1 ranges",
   text="The segmented sieve is a deterministic state machine: all 65536 states are visited through the real next() and each block is compared with an independent segmented sieve (every prime below 2^32 exactly once, in order), then two calls past the end; primes(k) for every k up to 4096/60000 and the 2^j edges; SmoothBase::new for every B1 in [4,6000/70000], around 65536 and the strategy-table values, with and without large blocks: every block factored back and every prime power below B1 covered; PM1Base likewise.",
   note="Trusted: plain Eratosthenes reference. B1 above 70000 only at the strategy-table values.", ref="3/C17"),
 "C09": dict(cat="exploration", engine="seq-exhaustive", tech="bounded-exhaustive enumeration of width pairs x operand shapes with a self-certifying Bezout oracle, under a per-call watchdog",
   text="For the 1024-bit (<= 1012 bits) and 512-bit (<= 500 bits) instantiations: all pairs of bit widths over word-boundary values and EVERY width within 48 bits of the type width x all pairs of operand shapes, every size gap 0..70 at 13 base widths, all Fibonacci pairs, multiples, huge-quotient pairs, zero/equal operands, the 13x13 product below 2^64. The oracle needs no reference gcd: d | a, d | b and u*a+v*b = d in 2560-bit arithmetic; big_gcd and inv_mod must agree. Non-termination within 20 s is a violation.",
   note="Trusted: bnum arithmetic for the certificate. Silent about operand values outside the shape alphabet.", ref="3/C09"),
 "C10": dict(cat="exploration", engine="seq-exhaustive", tech="bounded-exhaustive enumeration of moduli classes x transform sizes x operand lengths x structured operands against exact integer / schoolbook references",
   text="Both convolution implementations on every transform size 2^1..2^10 (thorough 2^13) with all listed operand-length pairs, offsets and structured operand pairs, plus worst-case full-length operands up to 2^13 (thorough 2^16), for moduli on both sides of every Kronecker packing class edge and every word count; polynomial products (basic/Karatsuba/FFT) over all small length pairs straddling the thresholds, middle product, power-series quotient, from_roots, multi_eval, roots_eval against bnum schoolbook definitions.",
   note="Trusted: i128 integer convolution, bnum. Operands are structured (small signed patterns x residue multipliers, fixed pseudo-random residues), not all residues. multi_eval is driven inside its documented precondition (polynomial length at most the power of two above the point count).", ref="3/C10"),
 "C11": dict(cat="model_checking", engine="seq-history", tech="explicit-state search over add-histories replayed on the real RelationSet (state = history), invariant on every state; final_step on reached states",
   text="For 6 moduli an alphabet of 19 genuinely valid relations (complete, single- and double-large-prime, duplicates, chains, a cycle closer, a p=q square, reversed pairs, explicit even sign, factor 2) is built by CRT square roots; ALL sequences without repetition up to length 5 (thorough 6) and ALL sequences with repetition up to length 3 (4) are replayed on a fresh real store and every reached state is checked with independent arithmetic: published relations are true congruences with cofactor 1, the compact form decodes to the same congruence, pending partials/doubles are true congruences, the reverse index mirrors the doubles. final_step runs on the maximal states, on full-size sets and on all small subsets of relations of tiny moduli whose factors are in the base: only proper divisors, no panic.",
   note="Trusted: harness u128 arithmetic and Tonelli/CRT construction (each alphabet relation re-verified). Histories longer than the bound and other large-prime topologies are outside.", ref="3/C11"),
 "C12": dict(cat="model_checking", engine="seq-history", tech="explicit enumeration of Gray-code polynomial walks through the real first()/next() (state = index in the walk), invariant on every state for every factor-base prime",
   text="For moduli of 20..160 bits (thorough: to 320) in every class mod 8, with multiplier 1 and the selected multiplier, the real SIQS pipeline (parameter functions, factor selection, A selection, prepare_a) is driven and the whole Gray-code family of the first and last A values is walked through the real Poly::first/next (capped at 256/4096 polynomials); at every index the polynomial identity is checked exactly at three points (a degree-2 identity) and, for EVERY factor-base prime, the stored roots are verified against the polynomial values (brute-force zero set below 4096). MPQS polynomials from the real D enumeration and classical QS forward/backward roots (and their large-block shifts) likewise; FBase::new square roots.",
   note="Trusted: bnum I256/BUint arithmetic and u128 modular arithmetic. Walks longer than the cap and sizes above 320 bits are outside.", ref="3/C12"),
 "C13": dict(cat="exploration", engine="seq-exhaustive", tech="bounded-exhaustive enumeration of sieve configurations; oracle from the root tables on every reported position of every block",
   text="Two moduli x factor bases crossing every prime-size class boundary x interval lengths {1,2,3,5,20} x thresholds x root compensation x root tables {real QS roots, zero, p-1, single-root markers, bucket-edge offsets} x state {fresh, recycled, rehashed twice}: every block is sieved by the real code and for every reported position every base prime that divides it (by the root tables) must be listed, up to counted overflow losses; cofactor consequence on the QS configuration.",
   note="Trusted: divisibility defined by the root tables. Synthetic tables keep single roots to one prime per class below 2^14 as real polynomials do. Thresholds/root rotate in quick mode.", ref="3/C13"),
 "C14": dict(cat="exploration", engine="seq-exhaustive", tech="small-scope exhaustive enumeration of all GF(2) matrices up to 4x5/3x7 + structured families; exhaustive enumeration of Lanczos seeds through an RNG seam",
   text="kernel_gauss on EVERY 0/1 matrix of the small shapes (1.3M matrices) and on a structured family (columns 1..2000/5000, coranks 0..100, uniform/sieve/duplicate/zero-column/band profiles): vectors non-zero, annihilated, independent, count = columns - rank. kernel_lanczos on the same family (>= 200 columns) and on tiny-kernel matrices for ALL seeds 0..15 (thorough 0..255) of its random block: every returned vector non-zero and in the kernel.",
   note="Trusted: own GF(2) elimination. Lanczos' randomness is owned through hook H3 (seeded StdRng); the seed list is finite.", ref="3/C14"),
 "C15": dict(cat="model_checking", engine="seq-group", tech="explicit exploration of complete small state spaces: every point and every pair of points of every curve over small prime fields (the group is the state space, the group operation the transition), symbolic interpretation of every addition chain of a scalar family, CRT-composite scalar multiplications",
   text="For every prime field F_q, 7 <= q <= 131, and every listed curve of both families, ALL affine points are enumerated by brute force and ALL pairs (P, Q) are pushed through the real projective/extended formulas (add, sub, double, dblext, addext, addextproj, subextproj, the 128-bit add/dbladd/double/dblext) with varying projective representatives; each result is compared with the textbook affine Edwards law computed with explicit inversion. Every addition chain of the listed 64-bit and 1024-bit scalar families (incl. all 2^i+2^j, the 64 largest u64, every smoothness-base block) is interpreted symbolically and must evaluate to its scalar inside its buffer; the scalar multiplications run on prime and CRT-composite moduli of 1..8 words against affine double-and-add.",
   note="Trusted: harness affine arithmetic over u128/bnum. Formulas documented as non-unified are only required to be right on generic pairs and whenever they do not degenerate. Fields above 131 and scalars outside the families are not covered.", ref="3/C15"),
 "C16": dict(cat="exploration", engine="seq-exhaustive", tech="bounded-exhaustive enumeration of the promise domain: every prime l in (B1, B2] of each stage-2 table row (bands for the largest rows), every prime p of a range with its exact group order; one constructed input per promised case on the real routines",
   text="For each listed (B1, B2) pair the P-1 / P+1 / ECM promise is enumerated: for EVERY prime l in (B1, reported B2] a prime p with p-1 (p+1) = s*l, s | stage-1 exponent, is constructed together with a resistant cofactor prime and the real routine must return a split containing p; for ECM the group order of the real curve modulo EVERY prime p of [2^10, 2^13/2^16) is computed with independent affine arithmetic and every promised p must be split. Every Some returned by rho/P-1/ECM over all products of primes in (1000,1400) multiplies back to n with parts > 1.",
   note="Trusted: harness primality test, affine arithmetic, baby-step giant-step order computation. For rows above 4e6 only the top 1% and the band just above B1 are enumerated (stated in the evidence).", ref="3/C16"),
 "C18": dict(cat="model_checking", engine="seq-group", tech="explicit exploration of the complete class group of every fundamental discriminant below a bound: class number from the enumeration of all reduced forms; coset-by-coset exploration of the subgroup of G x H generated by (prime form, reported coordinates); every relation-file line multiplied out with independent form arithmetic",
   text="classgroup() is called (with an output directory) on EVERY negative fundamental discriminant below 60000 (thorough 1.5e6), with forced double large primes and with a thread pool on sub-ranges, on every fundamental D within a window of 2^k (k up to 40/44, class number by a divisor-count sieve) and on constructed discriminants of 45..128 bits. Whenever a result is returned: h equals the number of reduced forms; the cyclic factors multiply to h; the subgroup of (true class group) x (reported product of cyclic groups) generated by the pairs ([p], coordinates of p) is enumerated completely and must be the graph of a bijection (=> the reported group is isomorphic to the class group and the coordinates are a valid isomorphism); every line of relations.sieve multiplies to the principal class under the documented sign convention; classnumber / group.structure files agree with the return value. Above the enumerable range: relation lines and exact generator orders. With a pool: loom scenarios S8/S8b/S8c run the real classgroup() with 2 workers (default, forced double large primes, reversed item order) and every interleaving within the preemption bound must give the class number and group of the single-threaded run (which this check decides).",
   note="Trusted: harness Arndt composition + Gauss reduction (self-validated on group axioms for all |D| < 1200 before every run). A panic or None is not a result (counted in the evidence). Thread-pool runs here are free-running; interleavings belong to the loom engine.", ref="3/C18"),
 "C19": dict(cat="model_checking", engine="seq-history", tech="explicit-state search over histories of elementary row/column operations applied to known diagonal forms (determinant sign, lattice index and quotient group are invariants tracked along the history) + exhaustive enumeration of small matrices, permutations, determinant bit-lengths and short linear recurrences",
   text="Every matrix reachable within the depth bound from a set of diagonal forms (n = 2, 3, 4, 10) by row/column additions, swaps and negations is given to det_matz, GFpEchelonBuilder, dense compute_lattice_index (five brackets; with and without redundant rows), SmithNormalForm::new+reduce and SparseMat::detz; every answer is compared with the invariant known by construction (exact determinant with sign, index, primary decomposition of the quotient). Plus: EVERY 2x2 matrix over -3..3 and 3x3 over -1..1 (thorough: 3x3 over -2..2, 4x4 over -1..1) against cofactor expansion; EVERY permutation of up to 6 (8) elements scaled by primes, alone and embedded in dimension 10..12; one matrix for EVERY determinant bit-length 1..400 (1300) x 3 sub-bit variants; dense scrambles of dimension 9..60; sparse scrambles of dimension 8..250 with and without a pool; Berlekamp-Massey on every invertible recurrence of order <= 3 (4) over small fields and edge alphabets of 60/63-bit primes. A panic inside the documented precondition counts as a failure to return the value. SparseMat::detz with a pool: loom scenarios S9/S9b enumerate every arrival order of the modulus chunks (2 and 3 chunks, 2 workers) within the preemption bound.",
   note="Trusted: cofactor expansion / Bareiss / Gaussian elimination mod 2^61-1 (cross-checked against the tracked invariants on every run), textbook Berlekamp-Massey. Known findings are identified by an independently computed condition (degenerate Krylov sequence, square presentation) or by the listed failing input (known_inputs/C19.txt); any other failing input is reported.", ref="3/C19"),
 "C20": dict(cat="exploration", engine="seq-exhaustive", tech="complete enumeration of the finite configuration space (every bit length x residue class x switch; every table row; every size x transform length) against the consumers' transcribed requirements and the consumers themselves",
   text="EVERY bit length 1..512 x residue class mod 8 x double-large-prime switch: the SIQS/MPQS/QS/class-group parameter functions are evaluated and checked against their consumers' requirements; the consumers (FBase::new, select_siqs_factors, select_a, prepare_a, Poly::first/next, make_poly, SieveQS set-up) run on a representative input of every size 20..128 (thorough ..330); both stage-2 tables over a 64-points-per-octave B2 grid plus every strategy literal (d1 % 6, d2 power of two, FFT threshold, phi(d1)+2 < d2, NTT context constructible, pm1_impl run); convolve_modn dispatch for EVERY modulus size 2..500 bits x every transform size with worst-case operands.",
   note="Trusted: the transcription of the consumers' assertions; A*M^2 is flagged only on a certain failure (lower bound on A).", ref="3/C20"),
}

# additions of session 4 (see DESIGN.md 8.5, fourth round)
CHECKS["C03"]["text"] += " Family multiplier: one 116-bit input per multiplier value the real select_multiplier returns over 3200 semiprimes, under Siqs and Mpqs. Family fbase-divisor: a prime of the factor base (14 primes on both sides of the sieve's size classes) divides a 100..160-bit n, under Qs/Mpqs/Siqs."
CHECKS["C04"]["text"] += " Free-running supplement (labelled one schedule per run): real rayon pools of 1..16 threads on a sub-corpus, including six 30..61-bit semiprimes where pool threads start from the far end of the work ranges."
CHECKS["C05"]["text"] += " (c) abort already true when the call starts on 128..350-bit (thorough 500-bit) semiprimes x 6 selectors: CPU of the whole call <= 1 s; (d) pooled ECM/SIQS/MPQS/automatic runs with the flag raised from outside after 3-6 s of CPU: CPU of all threads between signal and return <= 2.5 s, a call still working 40 s later is abandoned and reported."
CHECKS["C06"]["text"] += " The family p(2p-1) is enumerated completely below 2^64 in both tiers (segmented sieve over p), the shapes p(3p-2), p(4p-3), p(5p-4) to p < 2^29 (quick) / completely (thorough)."
CHECKS["C10"]["text"] += " roots_eval on the complete grid 1..72 roots x 1..40 points (thorough 140 x 70)."
CHECKS["C12"]["text"] += " History part for the classical sieve: the real qsieve() is run up to its 5th large block on every modulus of 40..160 bits and the root tables it installs after each large-block shift (hook H6) must be exactly the roots of the polynomial on that block."
CHECKS["C13"]["text"] += " Root table 'bucket-pile' (a 256-wide bucket of an odd block overflows into the overflow list below its capacity at reported positions) and a 12500-prime base (primes above 2^18 hitting a 20-block interval several times) in the quick tier."
CHECKS["C16"]["text"] += " Three-prime inputs for P-1 and P+1 (ring shrunk between the stages); the 64-bit two-stage PM1Base::factor: 8 budgets x EVERY stage-2 prime the budget pays for."

CHECKS["C11"]["text"] += " The chain histories are repeated with large primes just above 2^23 and just above 2^31."
CHECKS["C18"]["text"] += " The 120- and 128-bit constructed discriminants are in the quick tier as well."
CHECKS["C19"]["text"] += " Families K (index = small multiple of a CRT prime of the dense routines) and L (short rows spanning a sublattice of index 2,3,5,7 in its saturation, indices up to 125.9 bits)."
CHECKS["C20"]["text"] += " Row selection is called under the panic guard for requests up to 1e18."

NOT_APPLICABLE = {
}

def main():
    props = [json.loads(l) for l in open(os.path.join(V, "properties.jsonl"))]
    ids = [p["id"] for p in props]
    checks = []
    for pid in ids:
        if pid not in CHECKS:
            continue
        c = CHECKS[pid]
        checks.append({
            "property_id": pid,
            "quick_cmd": "./check %s --tier quick" % pid,
            "thorough_cmd": "./check %s --tier thorough" % pid,
            "evidence_file": "evidence/%s.json" % pid,
            "replay_cmd_template": "./check %s --replay {path}" % pid,
            "engine": c["engine"],
            "level_claimed": {"category": c["cat"], "text": c["text"], "design_ref": "DESIGN.md section " + c["ref"]},
            "level_note": c["note"],
            "technique": c["tech"],
        })
    na = []
    for pid in ids:
        if pid in CHECKS:
            continue
        reason = NOT_APPLICABLE.get(pid, "check not built yet in this session (planned in DESIGN.md section 3); not claimed until its engine exists and passes on the unchanged tree")
        na.append({"property_id": pid, "reason": reason})
    hooks_commits = []
    hp = os.path.join(V, "hooks_commits.txt")
    if os.path.exists(hp):
        hooks_commits = [l.split()[0] for l in open(hp) if l.strip() and not l.startswith("#")]
    man = {
        "version": 1,
        "setup_cmd": "./setup.sh",
        "hooks": {
            "guard": "--cfg yamaquasi_verif (accessors/observers/seams); --cfg yamaquasi_verif_loom (sync+rayon shim for the loom engine)",
            "enable": "RUSTFLAGS='--cfg yamaquasi_verif' (seq engine) / RUSTFLAGS='--cfg yamaquasi_verif --cfg yamaquasi_verif_loom' (loom engine); set by ./check when it builds the harness crates against /repo",
            "baseline_off_cmd": "cd /repo && cargo test --workspace --no-fail-fast --offline",
            "source_commits": hooks_commits,
            "add_only": True,
        },
        "engines": [
            {"name": "seq-sweep", "path": "harness/src/sweep.rs", "serves_properties": ["C01", "C02", "C03"], "kind_free_text": "subprocess-sharded bounded-exhaustive driver of factor() with crash attribution"},
            {"name": "loom", "path": "lmharness/src/main.rs", "serves_properties": ["C04", "C05", "C18", "C19"], "kind_free_text": "loom (DPOR, preemption-bounded) exploration of the real code through the cfg-gated shim /repo/src/verif_shim.rs; one subprocess per scenario x bound; failing schedule saved as a loom checkpoint"},
            {"name": "seq-exhaustive", "path": "harness/src/", "serves_properties": ["C06", "C07", "C08", "C09", "C10", "C13", "C14", "C16", "C17", "C20"], "kind_free_text": "in-process bounded-exhaustive enumerators with reference models (harness/src/refmodel.rs), parallel over 16 cores, panics captured per case"},
            {"name": "seq-history", "path": "harness/src/c11.rs", "serves_properties": ["C11", "C12", "C19"], "kind_free_text": "explicit-state history search on real objects (fresh object per history, DFS sharded over 16 cores, canonical state hash for counting)"},
            {"name": "seq-group", "path": "harness/src/c18.rs", "serves_properties": ["C15", "C18"], "kind_free_text": "complete exploration of small finite groups as state spaces (points of a curve over F_q; form classes of a discriminant) with the real code's outputs checked against an independent group law on every state and transition"},
            {"name": "seq-fault", "path": "harness/src/c05.rs", "serves_properties": ["C05"], "kind_free_text": "exhaustive abort-instant enumeration on the real factor()/classgroup()"},
        ],
        "checks": checks,
        "not_applicable": na,
        "notes": "All checks: ./check <id> --tier quick|thorough. Exit 0 held / 1 violation / 2 machinery. Known findings in known_findings.txt. See DESIGN.md.",
    }
    with open(os.path.join(V, "MANIFEST.json"), "w") as f:
        json.dump(man, f, indent=1)
        f.write("\n")
    try:
        import jsonschema
        jsonschema.validate(man, json.load(open("/root/.vp/MANIFEST.schema.json")))
        print("MANIFEST valid;", len(checks), "checks,", len(na), "not_applicable")
    except ImportError:
        print("jsonschema not available; written without validation")

if __name__ == "__main__":
    main()
