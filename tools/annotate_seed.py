#!/usr/bin/env python3
"""usage: annotate_seed.py <seed-id> <caught_by comma list> <history text>
Adds the "verif" block (what was run, which checks catch it) to seeded/<seed-id>/meta.json."""
import json, sys, os
sid, caught, hist = sys.argv[1], [c for c in sys.argv[2].split(',') if c], sys.argv[3]
p = os.path.join(os.path.dirname(os.path.abspath(__file__)), '..', 'seeded', sid, 'meta.json')
m = json.load(open(p))
m['verif'] = {
    'property_broken': m.get('property', sid[:3]),
    'needs_to_manifest': m.get('needs', ''),
    'confirmed_by_me': 'tools/confirm_seed.sh in a scratch worktree of /repo: the demonstration passes on the clean tree, fails with patch.diff applied, and `cargo test --workspace --no-fail-fast --offline` still passes with the patch (82 passed); see confirm.log',
    'checked_with': 'tools/run_seed.sh /verif/seeded/%s %s  (git -C /repo apply patch.diff; ./check <id> --tier quick; git -C /repo checkout -- .)' % (sid, ' '.join(caught)),
    'caught_by': caught,
    'verdict': 'every listed check exits 1 with VIOLATION lines on the patched tree and exits 0 on the unchanged tree',
    'history': hist,
}
json.dump(m, open(p, 'w'), indent=1)
print('annotated', sid, caught)
